use std::sync::{Arc, RwLock, mpsc};
use std::thread; use std::time::Duration;
fn main() {
    let l = Arc::new(RwLock::new(0u32));
    let (tx, rx) = mpsc::channel();
    let l1 = l.clone();
    let a = thread::spawn(move || {
        let g1 = l1.read().unwrap();
        thread::sleep(Duration::from_millis(300)); // writer queues meanwhile
        let g2 = l1.read().unwrap(); // recursive read
        tx.send(*g1 + *g2).unwrap();
    });
    thread::sleep(Duration::from_millis(100));
    let l2 = l.clone();
    let _w = thread::spawn(move || { let mut g = l2.write().unwrap(); *g += 1; });
    match rx.recv_timeout(Duration::from_secs(2)) {
        Ok(_) => println!("no deadlock (reader-preferring or fair-to-recursion)"),
        Err(_) => println!("DEADLOCK: recursive read blocked behind queued writer (writer-preferring)"),
    }
    let _ = a; std::process::exit(0);
}
