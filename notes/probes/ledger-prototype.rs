use brc20_prog::verif_probe::*;
use serde_json::{json, Value};
use std::sync::Arc;
use alloy::primitives::{keccak256, Address, U256, TxKind, Bytes};
use alloy_consensus::{TxLegacy, SignableTransaction};
use alloy_consensus::transaction::RlpEcdsaEncodableTx;
use alloy_signer::SignerSync;
use alloy_signer_local::PrivateKeySigner;

struct Asm(Vec<u8>);
impl Asm {
    fn op(&mut self, b: u8) -> &mut Self { self.0.push(b); self }
    fn push(&mut self, v: u64) -> &mut Self { let bytes = v.to_be_bytes(); let i = bytes.iter().position(|b| *b != 0).unwrap_or(7); let n = 8 - i; self.0.push(0x5f + n as u8); self.0.extend_from_slice(&bytes[i..]); self }
    fn sstore_top(&mut self, slot: u64) -> &mut Self { self.push(slot).op(0x55) }
}
fn ctx_runtime() -> Vec<u8> {
    let mut a = Asm(vec![]);
    for (slot, opc) in [(0u64,0x43u8),(1,0x42),(2,0x44),(3,0x46),(4,0x48),(5,0x3a),(6,0x41),(7,0x32),(8,0x33),(15,0x45)] { a.op(opc).sstore_top(slot); }
    for (slot, k) in [(9u64,1u64),(10,2),(11,256),(12,257)] { a.push(k).op(0x43).op(0x03).op(0x40).sstore_top(slot); }
    let sel = &keccak256(b"getTxId()")[..4]; let selv = u32::from_be_bytes([sel[0],sel[1],sel[2],sel[3]]) as u64;
    a.push(selv).push(0).op(0x52); // mstore(0, sel)
    a.push(0x20).push(0x20).push(4).push(0x1c).push(0xfa).op(0x5a).op(0xfa); // staticcall
    a.sstore_top(13);
    a.push(0x20).op(0x51).sstore_top(14); // mload(0x20)
    a.op(0x3d).sstore_top(17); // returndatasize
    a.op(0x00);
    a.0
}
fn initcode(rt: &[u8]) -> Vec<u8> {
    let mut a = Asm(vec![]);
    // PUSH2 len PUSH2 off PUSH1 0 CODECOPY PUSH2 len PUSH1 0 RETURN ; header is 3+3+2+1+3+2+1 = 15 bytes
    let len = rt.len() as u16; let off = 15u16;
    a.0.extend_from_slice(&[0x61, (len>>8) as u8, len as u8, 0x61, (off>>8) as u8, off as u8, 0x60, 0, 0x39, 0x61, (len>>8) as u8, len as u8, 0x60, 0, 0xf3]);
    a.0.extend_from_slice(rt); a.0
}
fn raw_tx(signer: &PrivateKeySigner, chain_id: u64, nonce: u64, to: Address, data: Vec<u8>) -> String {
    let tx = TxLegacy { chain_id: Some(chain_id), nonce, gas_price: 0, gas_limit: 0, to: TxKind::Call(to), value: U256::ZERO, input: Bytes::from(data) };
    let sig = signer.sign_hash_sync(&tx.signature_hash()).unwrap();
    let mut buf = Vec::new(); tx.rlp_encode_signed(&sig, &mut buf); format!("0x{}", hex::encode(buf))
}
fn h(b: u8) -> String { format!("0x{}", hex::encode([b; 32])) }

fn abi_bytes_addr_u256(sel: &[u8], ticker: &[u8], addr: Address, amt: U256) -> Vec<u8> {
    // f(bytes,address,uint256): head: offset(0x60), addr, amt ; tail: len, data padded
    let mut d = sel.to_vec();
    d.extend_from_slice(&U256::from(0x60).to_be_bytes::<32>());
    let mut a = [0u8;32]; a[12..].copy_from_slice(addr.as_slice()); d.extend_from_slice(&a);
    d.extend_from_slice(&amt.to_be_bytes::<32>());
    d.extend_from_slice(&U256::from(ticker.len()).to_be_bytes::<32>());
    let mut t = ticker.to_vec(); while t.len() % 32 != 0 { t.push(0); } d.extend_from_slice(&t);
    d
}
fn main() {
    CONFIG.write_fn_unchecked(|c| { c.evm_record_traces = true; c.bitcoin_rpc_network = "regtest".into(); c.chain_id = 0x425243323073; });
    let rt = tokio::runtime::Builder::new_current_thread().enable_all().build().unwrap();
    let dir = tempfile::TempDir::new_in("/dev/shm").unwrap();
    let e = Arc::new(BRC20ProgEngine::new(Brc20ProgDatabase::new(dir.path()).unwrap()));
    let m = verif_rpc_module(e.clone());
    let call = |method: &str, params: Value| -> Value {
        let req = json!({"jsonrpc":"2.0","id":1,"method":method,"params":params}).to_string();
        let (r, _) = rt.block_on(m.raw_json_request(&req, 1)).unwrap(); serde_json::from_str(r.get()).unwrap() };
    let z = h(0);
    call("brc20_initialise", json!({"genesis_hash":z,"genesis_timestamp":5,"genesis_height":0}));
    let ctrl = "0xc54dd4581af2dbf18e4d90840226756e9d2b3cdb";
    let mut idx = 0u64; let mut n = 0;
    let mut op = |meth: &str, pk: &str, tick: &str, amt: &str| { n += 1; let key = if meth=="brc20_deposit" {"to_pkscript"} else {"from_pkscript"};
        let r = call(meth, json!({key:pk,"ticker":tick,"amount":amt,"timestamp":7,"hash":z,"tx_idx":idx,"inscription_id":format!("i{}",n)})); idx += 1;
        println!("{:14} {} {:6} {:>8} -> status {} {}", meth, pk, tick, amt, r["result"]["status"], r["error"]); };
    let bal = |pk: &str, tick: &str| call("brc20_balance", json!([pk, tick]))["result"].as_str().unwrap_or("ERR").to_string();
    op("brc20_deposit","aa","ordi","0x64");
    op("brc20_deposit","aa","ORDI","0x1");
    op("brc20_deposit","bb","OrDi","0x0");
    op("brc20_withdraw","aa","ordi","0x65");
    op("brc20_withdraw","aa","ordi","0x66");
    op("brc20_withdraw","bb","ordi","0x1");
    op("brc20_deposit","bb","x","0xffffffffffffffffffffffffffffffffffffffffffffffffffffffffffffffff");
    op("brc20_deposit","aa","x","0x1");
    // adversarial: user aa calls controller.mint / burn directly
    let a_addr = get_evm_address_from_pkscript("aa").unwrap();
    let mint_sel = &keccak256(b"mint(bytes,address,uint256)")[..4];
    let burn_sel = &keccak256(b"burn(bytes,address,uint256)")[..4];
    let transfer_sel = &keccak256(b"transfer(bytes,address,uint256)")[..4];
    for (name, sel) in [("user->mint", mint_sel), ("user->burn", burn_sel)] {
        let data = abi_bytes_addr_u256(sel, b"ordi", a_addr, U256::from(5));
        let r = call("brc20_call", json!({"from_pkscript":"aa","contract_address":ctrl,"data":format!("0x{}",hex::encode(data)),"timestamp":7,"hash":z,"tx_idx":idx,"inscription_id":format!("adv{}",idx),"inscription_byte_len":100000,"op_return_tx_id":z})); idx += 1;
        println!("{:14} -> status {}", name, r["result"]["status"]);
    }
    call("brc20_finaliseBlock", json!({"timestamp":7,"hash":z,"block_tx_count":idx}));
    for (pk,t) in [("aa","ordi"),("aa","ORDI"),("bb","ordi"),("bb","x"),("aa","x")] { println!("balance {} {} = {}", pk, t, bal(pk,t)); }
    // user transfer bb -> aa of x (max) then check
    let b_data = abi_bytes_addr_u256(transfer_sel, b"x", a_addr, U256::from(7));
    let r = call("brc20_call", json!({"from_pkscript":"bb","contract_address":ctrl,"data":format!("0x{}",hex::encode(b_data)),"timestamp":9,"hash":z,"tx_idx":0,"inscription_id":"tr","inscription_byte_len":100000,"op_return_tx_id":z}));
    println!("bb transfers 7 x to aa -> status {}", r["result"]["status"]);
    call("brc20_finaliseBlock", json!({"timestamp":9,"hash":z,"block_tx_count":1}));
    for (pk,t) in [("bb","x"),("aa","x")] { println!("balance {} {} = {}", pk, t, bal(pk,t)); }
}
