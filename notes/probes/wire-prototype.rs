use std::io::{Read, Write};
use std::net::TcpStream;
use brc20_prog::{start, Brc20ProgConfig};

fn http(addr: &str, auth: Option<&str>, body: &str) -> String {
    let mut s = TcpStream::connect(addr).unwrap();
    let mut req = format!("POST / HTTP/1.1\r\nHost: {}\r\nContent-Type: application/json\r\nContent-Length: {}\r\nConnection: close\r\n", addr, body.len());
    if let Some(a) = auth { req.push_str(&format!("Authorization: {}\r\n", a)); }
    req.push_str("\r\n"); req.push_str(body);
    s.write_all(req.as_bytes()).unwrap();
    let mut out = String::new(); s.read_to_string(&mut out).unwrap();
    let status = out.lines().next().unwrap_or("").to_string();
    let body = out.split("\r\n\r\n").nth(1).unwrap_or("").to_string();
    format!("[{}] {}", status, body.chars().take(300).collect::<String>())
}

#[tokio::main(flavor = "multi_thread", worker_threads = 2)]
async fn main() {
    let dir = tempfile::TempDir::new_in("/dev/shm").unwrap();
    let port = { let l = std::net::TcpListener::bind("127.0.0.1:0").unwrap(); l.local_addr().unwrap().port() };
    let addr = format!("127.0.0.1:{}", port);
    let mut cfg = Brc20ProgConfig::from_env();
    cfg.db_path = dir.path().to_str().unwrap().to_string();
    cfg.brc20_prog_rpc_server_url = addr.clone();
    cfg.brc20_prog_rpc_server_enable_auth = true;
    cfg.brc20_prog_rpc_server_user = Some("u".into());
    cfg.brc20_prog_rpc_server_password = Some("p".into());
    cfg.fail_on_bitcoin_rpc_error = false;
    let handle = start(cfg).await.expect("start");
    let good = "Basic dTpw"; // u:p
    let a = addr.clone();
    let res = tokio::task::spawn_blocking(move || {
        let mut out = vec![];
        let mine = r#"{"jsonrpc":"2.0","id":7,"method":"brc20_mine","params":[1,1]}"#;
        let bn = r#"{"jsonrpc":"2.0","id":8,"method":"eth_blockNumber","params":[]}"#;
        let mine_notif = r#"{"jsonrpc":"2.0","method":"brc20_mine","params":[1,1]}"#;
        out.push(format!("no auth  call mine     -> {}", http(&a, None, mine)));
        out.push(format!("no auth  call blockNum -> {}", http(&a, None, bn)));
        out.push(format!("no auth  notif mine    -> {}", http(&a, None, mine_notif)));
        out.push(format!("no auth  batch         -> {}", http(&a, None, &format!("[{},{},{}]", bn, mine, mine_notif))));
        out.push(format!("bad auth call mine     -> {}", http(&a, Some("Basic dTpx"), mine)));
        out.push(format!("malformed auth         -> {}", http(&a, Some("Basic"), mine)));
        out.push(format!("lowercase scheme       -> {}", http(&a, Some("basic dTpw"), mine)));
        out.push(format!("after refused: height  -> {}", http(&a, None, bn)));
        out.push(format!("good auth call mine    -> {}", http(&a, Some(good), mine)));
        out.push(format!("good auth notif mine   -> {}", http(&a, Some(good), mine_notif)));
        out.push(format!("good auth batch        -> {}", http(&a, Some(good), &format!("[{},{},{}]", bn, mine, mine_notif))));
        out.push(format!("final height           -> {}", http(&a, None, bn)));
        out
    }).await.unwrap();
    for l in res { println!("{}", l); }
    handle.stop().unwrap();
}
