use brc20_prog::verif_probe::*;
use serde_json::{json, Value};
use std::sync::{Arc, Mutex, Condvar};
use std::collections::HashMap;
use std::cell::Cell;
const Z: &str = "0x0000000000000000000000000000000000000000000000000000000000000000";

#[derive(Clone, Copy, PartialEq, Debug)]
enum Status { NotStarted, Running, Want(usize, char), Done }
#[derive(Default, Debug)]
struct LockM { readers: Vec<usize>, writer: Option<usize>, wq: Vec<usize> }
struct St { status: Vec<Status>, current: Option<usize>, locks: HashMap<usize, LockM>, prefix: Vec<usize>, step: usize,
            trace: Vec<(usize, usize, bool)>, deadlock: bool, abort: bool, events: Vec<String>, active: bool }
struct Sched { st: Mutex<St>, cv: Condvar }
thread_local! { static TID: Cell<Option<usize>> = Cell::new(None); }
struct Abort;

impl Sched {
    fn grantable(st: &St, l: usize, k: char, t: usize) -> bool {
        let lm = st.locks.get(&l);
        match lm { None => true, Some(lm) => if k == 'r' { lm.writer.is_none() && lm.wq.is_empty() } else { lm.writer.is_none() && lm.readers.is_empty() && { let _ = t; true } } }
    }
    fn schedule(&self, st: &mut St) {
        let n = st.status.len();
        let mut enabled: Vec<usize> = Vec::new();
        if let Some(c) = st.current { if match st.status[c] { Status::NotStarted => true, Status::Want(l,k) => Self::grantable(st,l,k,c), _ => false } { enabled.push(c); } }
        for t in 0..n { if Some(t) == st.current { continue; } if match st.status[t] { Status::NotStarted => true, Status::Want(l,k) => Self::grantable(st,l,k,t), _ => false } { enabled.push(t); } }
        if enabled.is_empty() {
            if st.status.iter().all(|s| *s == Status::Done) { st.current = None; } else { st.deadlock = true; st.abort = true; }
            self.cv.notify_all(); return;
        }
        let idx = if st.step < st.prefix.len() { st.prefix[st.step] } else { 0 };
        assert!(idx < enabled.len(), "schedule divergence");
        let cur_enabled = st.current.map_or(false, |c| enabled[0] == c);
        st.trace.push((enabled.len(), idx, cur_enabled && idx != 0));
        st.step += 1;
        let t = enabled[idx];
        if let Status::Want(l, k) = st.status[t] { let lm = st.locks.entry(l).or_default(); if k == 'r' { lm.readers.push(t); } else { lm.wq.retain(|x| *x != t); lm.writer = Some(t); } }
        st.status[t] = Status::Running; st.current = Some(t);
        self.cv.notify_all();
    }
    fn wait_turn(&self, mut st: std::sync::MutexGuard<St>, tid: usize) {
        loop {
            if st.abort { drop(st); std::panic::panic_any(Abort); }
            if st.current == Some(tid) && st.status[tid] == Status::Running { return; }
            st = self.cv.wait(st).unwrap();
        }
    }
    fn on_event(&self, id: usize, k: char, file: &'static str, line: u32) {
        let Some(tid) = TID.with(|t| t.get()) else { return; };
        let mut st = self.st.lock().unwrap();
        if !st.active || st.abort { return; }
        st.events.push(format!("T{}:{}{:x}@{}:{}", tid, k, id & 0xfff, file.rsplit('/').next().unwrap(), line));
        match k {
            'r' | 'w' => { st.status[tid] = Status::Want(id, k); if k == 'w' { st.locks.entry(id).or_default().wq.push(tid); } self.schedule(&mut st); self.wait_turn(st, tid); }
            'u' => { let lm = st.locks.entry(id).or_default(); if let Some(p) = lm.readers.iter().position(|x| *x == tid) { lm.readers.remove(p); } }
            'U' => { st.locks.entry(id).or_default().writer = None; }
            _ => {}
        }
    }
}

fn main() {
    std::panic::set_hook(Box::new(|i| { if i.payload().downcast_ref::<Abort>().is_none() { let msg = i.payload().downcast_ref::<&str>().map(|s| s.to_string()).or_else(|| i.payload().downcast_ref::<String>().cloned()).unwrap_or_default(); eprintln!("REAL PANIC: {} at {:?}", msg, i.location().map(|l| format!("{}:{}", l.file().rsplit('/').next().unwrap(), l.line()))); } }));
    let sched = Arc::new(Sched { st: Mutex::new(St { status: vec![], current: None, locks: HashMap::new(), prefix: vec![], step: 0, trace: vec![], deadlock: false, abort: false, events: vec![], active: false }), cv: Condvar::new() });
    { let s = sched.clone(); let _ = VERIF_HOOK.set(Box::new(move |id, k, f, l| s.on_event(id, k, f, l))); }
    let mk = || {
        let dir = tempfile::TempDir::new_in("/dev/shm").unwrap();
        let db = Brc20ProgDatabase::new(dir.path()).unwrap();
        let e = Arc::new(BRC20ProgEngine::new(db));
        let m = Arc::new(verif_rpc_module(e.clone()));
        let rt = tokio::runtime::Builder::new_current_thread().enable_all().build().unwrap();
        let req = |meth: &str, p: Value| json!({"jsonrpc":"2.0","id":1,"method":meth,"params":p}).to_string();
        rt.block_on(m.raw_json_request(&req("brc20_initialise", json!({"genesis_hash":Z,"genesis_timestamp":1,"genesis_height":0})), 1)).unwrap();
        rt.block_on(m.raw_json_request(&req("brc20_mine", json!([2,1])), 1)).unwrap();
        rt.block_on(m.raw_json_request(&req("brc20_commitToDatabase", json!([])), 1)).unwrap();
        (dir, m)
    };
    let which = std::env::args().nth(1).unwrap_or("byhash".into());
    let reqs: Vec<String> = match which.as_str() {
        "byhash" => vec![json!({"jsonrpc":"2.0","id":1,"method":"eth_getBlockByHash","params":["0x0000000000000000000000000000000000000000000000000000000000000001", false]}).to_string(),
                     json!({"jsonrpc":"2.0","id":1,"method":"brc20_clearCaches","params":[]}).to_string()],
        "deposit" => vec![json!({"jsonrpc":"2.0","id":1,"method":"brc20_deposit","params":{"to_pkscript":"00","ticker":"ordi","amount":"0x5","timestamp":1,"hash":Z,"tx_idx":0,"inscription_id":"i"}}).to_string(),
                     json!({"jsonrpc":"2.0","id":1,"method":"brc20_clearCaches","params":[]}).to_string()],
        _ => vec![json!({"jsonrpc":"2.0","id":1,"method":"eth_getBlockByNumber","params":["1", true]}).to_string(),
                     json!({"jsonrpc":"2.0","id":1,"method":"brc20_clearCaches","params":[]}).to_string()],
    };
    let (mut _dir, mut module) = mk();
    let mut prefix: Vec<usize> = vec![];
    let (mut execs, mut deadlocks, mut maxlen) = (0u64, 0u64, 0usize);
    let mut first_dl: Option<Vec<String>> = None;
    let t0 = std::time::Instant::now();
    loop {
        { let mut st = sched.st.lock().unwrap(); *st = St { status: vec![Status::NotStarted; reqs.len()], current: None, locks: HashMap::new(), prefix: prefix.clone(), step: 0, trace: vec![], deadlock: false, abort: false, events: vec![], active: true }; }
        let mut hs = Vec::new();
        for (i, r) in reqs.iter().enumerate() {
            let (s, m, r) = (sched.clone(), module.clone(), r.clone());
            hs.push(std::thread::spawn(move || {
                TID.with(|t| t.set(Some(i)));
                let res = std::panic::catch_unwind(std::panic::AssertUnwindSafe(|| {
                    { let st = s.st.lock().unwrap(); s.wait_turn(st, i); }
                    let rt = tokio::runtime::Builder::new_current_thread().enable_all().build().unwrap();
                    let _ = rt.block_on(m.raw_json_request(&r, 1));
                }));
                let mut st = s.st.lock().unwrap();
                if !st.abort { if res.is_err() { st.events.push(format!("T{} PANICKED", i)); } st.status[i] = Status::Done; s.schedule(&mut st); }
            }));
        }
        { let mut st = sched.st.lock().unwrap(); sched.schedule(&mut st); }
        for h in hs { let _ = h.join(); }
        let (trace, dl, events) = { let mut st = sched.st.lock().unwrap(); st.active = false; (st.trace.clone(), st.deadlock, st.events.clone()) };
        execs += 1; maxlen = maxlen.max(trace.len());
        if dl { deadlocks += 1; if first_dl.is_none() { first_dl = Some(events.clone()); } let x = mk(); _dir = x.0; module = x.1; }
        else { let rt = tokio::runtime::Builder::new_current_thread().enable_all().build().unwrap(); let _ = rt.block_on(module.raw_json_request(&json!({"jsonrpc":"2.0","id":1,"method":"brc20_clearCaches","params":[]}).to_string(), 1)); }
        // backtrack
        let mut np: Option<Vec<usize>> = None;
        for i in (0..trace.len()).rev() { if trace[i].1 + 1 < trace[i].0 { let mut p: Vec<usize> = trace[..i].iter().map(|t| t.1).collect(); p.push(trace[i].1 + 1); np = Some(p); break; } }
        match np { Some(p) => prefix = p, None => break }
    }
    println!("{}: {} schedules explored, {} deadlocked, max {} choice points, {:.2}s", which, execs, deadlocks, maxlen, t0.elapsed().as_secs_f64());
    if let Some(e) = first_dl { println!("first deadlock schedule:\n  {}", e.join("\n  ")); }
}
