use brc20_prog::verif_probe::*;
use serde_json::{json, Value};
use std::sync::Arc;
use alloy::primitives::{keccak256, Address, U256, TxKind, Bytes};
use alloy_consensus::{TxLegacy, SignableTransaction};
use alloy_consensus::transaction::RlpEcdsaEncodableTx;
use alloy_signer::SignerSync;
use alloy_signer_local::PrivateKeySigner;

struct Asm(Vec<u8>);
impl Asm {
    fn op(&mut self, b: u8) -> &mut Self { self.0.push(b); self }
    fn push(&mut self, v: u64) -> &mut Self { let bytes = v.to_be_bytes(); let i = bytes.iter().position(|b| *b != 0).unwrap_or(7); let n = 8 - i; self.0.push(0x5f + n as u8); self.0.extend_from_slice(&bytes[i..]); self }
    fn sstore_top(&mut self, slot: u64) -> &mut Self { self.push(slot).op(0x55) }
}
fn ctx_runtime() -> Vec<u8> {
    let mut a = Asm(vec![]);
    for (slot, opc) in [(0u64,0x43u8),(1,0x42),(2,0x44),(3,0x46),(4,0x48),(5,0x3a),(6,0x41),(7,0x32),(8,0x33),(15,0x45)] { a.op(opc).sstore_top(slot); }
    for (slot, k) in [(9u64,1u64),(10,2),(11,256),(12,257)] { a.push(k).op(0x43).op(0x03).op(0x40).sstore_top(slot); }
    let sel = &keccak256(b"getTxId()")[..4]; let selv = u32::from_be_bytes([sel[0],sel[1],sel[2],sel[3]]) as u64;
    a.push(selv).push(0).op(0x52); // mstore(0, sel)
    a.push(0x20).push(0x20).push(4).push(0x1c).push(0xfa).op(0x5a).op(0xfa); // staticcall
    a.sstore_top(13);
    a.push(0x20).op(0x51).sstore_top(14); // mload(0x20)
    a.op(0x3d).sstore_top(17); // returndatasize
    a.op(0x00);
    a.0
}
fn initcode(rt: &[u8]) -> Vec<u8> {
    let mut a = Asm(vec![]);
    // PUSH2 len PUSH2 off PUSH1 0 CODECOPY PUSH2 len PUSH1 0 RETURN ; header is 3+3+2+1+3+2+1 = 15 bytes
    let len = rt.len() as u16; let off = 15u16;
    a.0.extend_from_slice(&[0x61, (len>>8) as u8, len as u8, 0x61, (off>>8) as u8, off as u8, 0x60, 0, 0x39, 0x61, (len>>8) as u8, len as u8, 0x60, 0, 0xf3]);
    a.0.extend_from_slice(rt); a.0
}
fn raw_tx(signer: &PrivateKeySigner, chain_id: u64, nonce: u64, to: Address, data: Vec<u8>) -> String {
    let tx = TxLegacy { chain_id: Some(chain_id), nonce, gas_price: 0, gas_limit: 0, to: TxKind::Call(to), value: U256::ZERO, input: Bytes::from(data) };
    let sig = signer.sign_hash_sync(&tx.signature_hash()).unwrap();
    let mut buf = Vec::new(); tx.rlp_encode_signed(&sig, &mut buf); format!("0x{}", hex::encode(buf))
}
fn h(b: u8) -> String { format!("0x{}", hex::encode([b; 32])) }

fn main() {
    let net = "regtest".to_string();
    let chain_id: u64 = 0x425243323073;
    CONFIG.write_fn_unchecked(|c| { c.evm_record_traces = true; c.bitcoin_rpc_network = net.clone(); c.chain_id = chain_id; });
    let rt = tokio::runtime::Builder::new_current_thread().enable_all().build().unwrap();
    let dir = tempfile::TempDir::new_in("/dev/shm").unwrap();
    let e = Arc::new(BRC20ProgEngine::new(Brc20ProgDatabase::new(dir.path()).unwrap()));
    let m = verif_rpc_module(e.clone());
    let call = |method: &str, params: Value| -> Value {
        let req = json!({"jsonrpc":"2.0","id":1,"method":method,"params":params}).to_string();
        let (r, _) = rt.block_on(m.raw_json_request(&req, 1)).unwrap(); serde_json::from_str(r.get()).unwrap() };
    let z = h(0);
    call("brc20_initialise", json!({"genesis_hash":z,"genesis_timestamp":5,"genesis_height":0}));
    // S: sstore(calldata[0..32], calldata[32..64]); return 32 bytes = old value
    // runtime: PUSH1 0 CALLDATALOAD SLOAD PUSH1 0 MSTORE ; PUSH1 0x20 CALLDATALOAD PUSH1 0 CALLDATALOAD SSTORE ; PUSH1 0x20 PUSH1 0 RETURN
    let rtc: Vec<u8> = vec![0x60,0,0x35,0x54,0x60,0,0x52, 0x60,0x20,0x35,0x60,0,0x35,0x55, 0x60,0x20,0x60,0,0xf3];
    let code = initcode(&rtc);
    let from = format!("{:?}", get_evm_address_from_pkscript("00").unwrap());
    // C17: simulated creation returns runtime code
    let sim = call("eth_call", json!([{"from":from,"data":format!("0x{}",hex::encode(&code))}]));
    println!("eth_call(create) -> {}  (runtime = 0x{})", sim["result"], hex::encode(&rtc));
    let est = call("eth_estimateGas", json!([{"from":from,"data":format!("0x{}",hex::encode(&code))}]));
    println!("estimateGas(create) -> {}", est["result"]);
    let g = u64::from_str_radix(est["result"].as_str().unwrap().trim_start_matches("0x"),16).unwrap();
    let need = (g + 11999) / 12000;
    // too small first (need-? ) : find actual minimal by trying len = need-1.. ; each attempt is a tx (failed ones don't bump nonce if invalid, do if OOG)
    let mut idx = 0;
    for len in [0u64, 1, need.saturating_sub(3), need-1, need] {
        let r = call("brc20_deploy", json!({"from_pkscript":"00","data":format!("0x{}",hex::encode(&code)),"timestamp":7,"hash":z,"tx_idx":idx,"inscription_id":format!("d{}",len),"inscription_byte_len":len,"op_return_tx_id":z}));
        idx += 1;
        println!("deploy with len {:>4} (limit {:>8}) -> status {} gasUsed {} contract {} nonce {}", len, len*12000, r["result"]["status"], r["result"]["gasUsed"], r["result"]["contractAddress"], call("eth_getTransactionCount", json!([from, "latest"]))["result"]);
    }
    call("brc20_finaliseBlock", json!({"timestamp":7,"hash":z,"block_tx_count":idx}));
    let addr = call("brc20_getTxReceiptByInscriptionId", json!([format!("d{}", need)]))["result"]["contractAddress"].as_str().unwrap().to_string();
    println!("installed code = {}", call("eth_getCode", json!([addr]))["result"]);
    // call set(0,5): eth_call vs tx
    let data = format!("0x{:064x}{:064x}", 0, 5);
    let sim = call("eth_call", json!([{"from":from,"to":addr,"data":data}]));
    let est = call("eth_estimateGas", json!([{"from":from,"to":addr,"data":data}]));
    let g = u64::from_str_radix(est["result"].as_str().unwrap().trim_start_matches("0x"),16).unwrap();
    let need = (g + 11999) / 12000;
    println!("eth_call(set) -> {} ; estimate {} -> need len {}", sim["result"], g, need);
    let mut idx = 0;
    for len in [need-1, need] {
        let r = call("brc20_call", json!({"from_pkscript":"00","contract_address":addr,"data":data,"timestamp":9,"hash":z,"tx_idx":idx,"inscription_id":format!("c{}",len),"inscription_byte_len":len,"op_return_tx_id":z}));
        idx += 1;
        let tr = call("debug_traceTransaction", json!([r["result"]["transactionHash"]]));
        println!("call with len {} -> status {} gasUsed {} output {} slot0 {}", len, r["result"]["status"], r["result"]["gasUsed"], tr["result"]["output"], call("eth_getStorageAt", json!([addr,"0x0"]))["result"]);
    }
}
