use brc20_prog::verif_probe::*;
use serde_json::{json, Value};
use std::sync::Arc;
use std::time::Instant;
use std::collections::{HashMap, HashSet};
const Z: &str = "0x0000000000000000000000000000000000000000000000000000000000000000";
const W: u64 = 10;

#[derive(Clone, Copy, Debug, PartialEq, Eq, Hash)]
enum Op { S1, S2, M1, M9, C, R(u8) } // R(k): 0:h-1 1:h-2 2:h-W 3:h-(W+1) 4:0



fn main() {
    let depth: usize = std::env::args().nth(1).unwrap().parse().unwrap();
    CONFIG.write_fn_unchecked(|c| { c.evm_record_traces = true; });
    let rt = tokio::runtime::Builder::new_current_thread().enable_all().build().unwrap();
    let mk = || {
        let dir = tempfile::TempDir::new_in("/dev/shm").unwrap();
        let db = Brc20ProgDatabase::new(dir.path()).unwrap();
        let engine = Arc::new(BRC20ProgEngine::new(db));
        let module = verif_rpc_module(engine.clone());
        (dir, engine, module)
    };
    let (_d1, e1, m1) = mk();
    let (_d2, e2, m2) = mk();
    let call = |m: &jsonrpsee::RpcModule<_>, method: &str, params: Value| -> Value {
        let req = json!({"jsonrpc":"2.0","id":1,"method":method,"params":params}).to_string();
        let (r, _) = rt.block_on(m.raw_json_request(&req, 1)).unwrap();
        serde_json::from_str(r.get()).unwrap()
    };
    // run a history; returns (final height, obs string); `ops` applied after seed
    let mut ncalls = 0u64;
    let mut run = |m: &jsonrpsee::RpcModule<_>, e: &BRC20ProgEngine, ops: &[Op], do_obs: bool| -> (Vec<bool>, String) {
        e.verif_wipe();
        call(m, "brc20_initialise", json!({"genesis_hash":Z,"genesis_timestamp":1,"genesis_height":0}));
        let r = call(m, "brc20_deploy", json!({"from_pkscript":"00","data":"0x6008600c60003960086000f36020356000355500","timestamp":1,"hash":Z,"tx_idx":0,"inscription_id":"d","inscription_byte_len":10000,"op_return_tx_id":Z}));
        let addr = r["result"]["contractAddress"].as_str().unwrap().to_string();
        call(m, "brc20_finaliseBlock", json!({"timestamp":1,"hash":Z,"block_tx_count":1}));
        let mut h: u64 = 1; let mut id = 0; let mut oks = Vec::new();
        for op in ops {
            ncalls += 1;
            let ok = match op {
                Op::S1 | Op::S2 => { id += 1; let v = if *op == Op::S1 {1} else {2};
                    let data = format!("0x{:064x}{:064x}", 0, v);
                    let r = call(m, "brc20_call", json!({"from_pkscript":"00","contract_address":addr,"data":data,"timestamp":1,"hash":Z,"tx_idx":0,"inscription_id":format!("c{}",id),"inscription_byte_len":10000,"op_return_tx_id":Z}));
                    assert!(r["error"].is_null());
                    call(m, "brc20_finaliseBlock", json!({"timestamp":1,"hash":Z,"block_tx_count":1})); h += 1; true }
                Op::M1 => { call(m, "brc20_mine", json!([1,1])); h += 1; true }
                Op::M9 => { call(m, "brc20_mine", json!([W-1,1])); h += W-1; true }
                Op::C => { call(m, "brc20_commitToDatabase", json!([])); true }
                Op::R(k) => { let n: i64 = match k {0=>h as i64-1,1=>h as i64-2,2=>h as i64-W as i64,3=>h as i64-(W as i64+1),_=>0};
                    if n < 0 { false } else {
                        let r = std::panic::catch_unwind(std::panic::AssertUnwindSafe(|| call(m, "brc20_reorg", json!([n]))));
                        match r { Ok(v) => { if v["error"].is_null() { h = n as u64; true } else { false } }, Err(_) => { return (oks, "PANIC".into()); } } } }
            };
            oks.push(ok);
        }
        let mut obs = String::new();
        if do_obs {
            let lo = h.saturating_sub(W+2);
            for b in (0..2).chain(lo.max(2)..h+3) {
                for (meth, p) in [("eth_getBlockByNumber", json!([format!("{}",b), true])), ("debug_getRawBlock", json!([format!("{}",b)])), ("debug_getRawReceipts", json!([format!("{}",b)])), ("eth_getBlockTransactionCountByNumber", json!([format!("{}",b)])), ("debug_getBlockTraceString", json!([format!("{}",b)]))] {
                    let mut v = call(m, meth, p); if let Some(o) = v.get_mut("result").and_then(|r| r.as_object_mut()) { o.remove("mineTimestamp"); } obs.push_str(&v.to_string());
                }
            }
            for i in 1..=8 { let v = call(m, "brc20_getTxReceiptByInscriptionId", json!([format!("c{}",i)])); obs.push_str(&v.to_string()); }
            obs.push_str(&call(m, "eth_getStorageAt", json!([addr, "0x0"])).to_string());
            obs.push_str(&call(m, "eth_getCode", json!([addr])).to_string());
            obs.push_str(&call(m, "eth_blockNumber", json!([])).to_string());
            obs.push_str(&call(m, "txpool_content", json!([])).to_string());
        }
        (oks, obs)
    };
    // enumerate paths
    let alphabet = [Op::S1, Op::S2, Op::M1, Op::M9, Op::C, Op::R(0), Op::R(1), Op::R(2), Op::R(3), Op::R(4)];
    let mut paths: Vec<Vec<Op>> = vec![vec![]];
    let mut all: Vec<Vec<Op>> = Vec::new();
    for _ in 0..depth {
        let mut next = Vec::new();
        for p in &paths { for op in alphabet {
            let r = p.iter().filter(|o| matches!(o, Op::R(_))).count() + matches!(op, Op::R(_)) as usize;
            let c = p.iter().filter(|o| **o == Op::C).count() + (op == Op::C) as usize;
            if r > 2 || c > 1 { continue; }
            if p.is_empty() && matches!(op, Op::R(_)|Op::C) { }
            let mut q = p.clone(); q.push(op); next.push(q);
        } }
        all.extend(next.iter().cloned());
        paths = next;
    }
    println!("depth {} -> {} paths (all prefixes)", depth, all.len());
    let t = Instant::now();
    let mut distinct: HashSet<u64> = HashSet::new();
    let mut memo: HashMap<Vec<Op>, u64> = HashMap::new();
    let mut viol = 0; let mut panics = 0; let mut refruns = 0;
    fn hsh(s: &str) -> u64 { use std::hash::{Hash, Hasher}; let mut h = std::collections::hash_map::DefaultHasher::new(); s.hash(&mut h); h.finish() }
    for p in &all {
        if !matches!(p.last(), Some(Op::R(_))) { continue; } // observe only after a reorg
        let (oks, obs) = run(&m1, &e1, p, true);
        if obs == "PANIC" { panics += 1; println!("PANIC on {:?}", p); std::process::exit(1); }
        // normal form (ignoring max-ever rule: use impl's acceptance) 
        let mut nf: Vec<Op> = Vec::new(); let mut hts: Vec<u64> = vec![1]; // height after each nf op
        let mut h = 1u64;
        for (op, ok) in p.iter().zip(oks.iter()) {
            match op { Op::S1|Op::S2|Op::M1 => { h += 1; nf.push(*op); hts.push(h); } Op::M9 => { h += W-1; nf.push(*op); hts.push(h);} Op::C => {}
              Op::R(k) => { if *ok { let n = match k {0=>h-1,1=>h-2,2=>h-W,3=>h-(W+1),_=>0};
                    // truncate nf to height n; M9 may straddle -> replace by M1s
                    let mut nn: Vec<Op> = Vec::new(); let mut hh = 1u64;
                    for o in &nf { let step = if *o == Op::M9 {W-1} else {1}; if hh + step <= n { nn.push(*o); hh += step; } else { while hh < n { nn.push(Op::M1); hh += 1; } break; } }
                    if n == 0 { nn.clear(); }
                    nf = nn; h = n; } } }
        }
        if h == 0 { continue; } // reorg to 0 handled separately
        let d = hsh(&obs); distinct.insert(d);
        let rd = *memo.entry(nf.clone()).or_insert_with(|| { refruns += 1; let (_, o) = run(&m2, &e2, &nf, true); hsh(&o) });
        if rd != d { viol += 1; if viol <= 1 { println!("DIFF after {:?} nf {:?}", p, nf); let (_, o2) = run(&m2, &e2, &nf, true); let a: Vec<char> = obs.chars().collect(); let b: Vec<char> = o2.chars().collect(); let i = a.iter().zip(b.iter()).position(|(x,y)| x!=y).unwrap_or(0); let lo = i.saturating_sub(200); println!("A: {}", a[lo..(i+120).min(a.len())].iter().collect::<String>()); println!("B: {}", b[lo..(i+120).min(b.len())].iter().collect::<String>()); } }
    }
    let el = t.elapsed().as_secs_f64();
    let observed = all.iter().filter(|p| matches!(p.last(), Some(Op::R(_)))).count();
    println!("observed {} paths ending in reorg, {} ref runs, {} distinct obs, {} diffs, {} panics, {:.1}s => {:.2} ms/path, rpc calls(ops) {}", observed, refruns, distinct.len(), viol, panics, el, 1e3*el/observed as f64, ncalls);
}
