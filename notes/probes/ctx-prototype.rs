use brc20_prog::verif_probe::*;
use serde_json::{json, Value};
use std::sync::Arc;
use alloy::primitives::{keccak256, Address, U256, TxKind, Bytes};
use alloy_consensus::{TxLegacy, SignableTransaction};
use alloy_consensus::transaction::RlpEcdsaEncodableTx;
use alloy_signer::SignerSync;
use alloy_signer_local::PrivateKeySigner;

struct Asm(Vec<u8>);
impl Asm {
    fn op(&mut self, b: u8) -> &mut Self { self.0.push(b); self }
    fn push(&mut self, v: u64) -> &mut Self { let bytes = v.to_be_bytes(); let i = bytes.iter().position(|b| *b != 0).unwrap_or(7); let n = 8 - i; self.0.push(0x5f + n as u8); self.0.extend_from_slice(&bytes[i..]); self }
    fn sstore_top(&mut self, slot: u64) -> &mut Self { self.push(slot).op(0x55) }
}
fn ctx_runtime() -> Vec<u8> {
    let mut a = Asm(vec![]);
    for (slot, opc) in [(0u64,0x43u8),(1,0x42),(2,0x44),(3,0x46),(4,0x48),(5,0x3a),(6,0x41),(7,0x32),(8,0x33),(15,0x45)] { a.op(opc).sstore_top(slot); }
    for (slot, k) in [(9u64,1u64),(10,2),(11,256),(12,257)] { a.push(k).op(0x43).op(0x03).op(0x40).sstore_top(slot); }
    let sel = &keccak256(b"getTxId()")[..4]; let selv = u32::from_be_bytes([sel[0],sel[1],sel[2],sel[3]]) as u64;
    a.push(selv).push(0).op(0x52); // mstore(0, sel)
    a.push(0x20).push(0x20).push(4).push(0x1c).push(0xfa).op(0x5a).op(0xfa); // staticcall
    a.sstore_top(13);
    a.push(0x20).op(0x51).sstore_top(14); // mload(0x20)
    a.op(0x3d).sstore_top(17); // returndatasize
    a.op(0x00);
    a.0
}
fn initcode(rt: &[u8]) -> Vec<u8> {
    let mut a = Asm(vec![]);
    // PUSH2 len PUSH2 off PUSH1 0 CODECOPY PUSH2 len PUSH1 0 RETURN ; header is 3+3+2+1+3+2+1 = 15 bytes
    let len = rt.len() as u16; let off = 15u16;
    a.0.extend_from_slice(&[0x61, (len>>8) as u8, len as u8, 0x61, (off>>8) as u8, off as u8, 0x60, 0, 0x39, 0x61, (len>>8) as u8, len as u8, 0x60, 0, 0xf3]);
    a.0.extend_from_slice(rt); a.0
}
fn raw_tx(signer: &PrivateKeySigner, chain_id: u64, nonce: u64, to: Address, data: Vec<u8>) -> String {
    let tx = TxLegacy { chain_id: Some(chain_id), nonce, gas_price: 0, gas_limit: 0, to: TxKind::Call(to), value: U256::ZERO, input: Bytes::from(data) };
    let sig = signer.sign_hash_sync(&tx.signature_hash()).unwrap();
    let mut buf = Vec::new(); tx.rlp_encode_signed(&sig, &mut buf); format!("0x{}", hex::encode(buf))
}
fn h(b: u8) -> String { format!("0x{}", hex::encode([b; 32])) }

fn main() {
    let net = std::env::args().nth(1).unwrap();
    let chain_id: u64 = if net == "mainnet" || net == "bitcoin" { 0x4252433230 } else { 0x425243323073 };
    CONFIG.write_fn_unchecked(|c| { c.evm_record_traces = true; c.bitcoin_rpc_network = net.clone(); c.chain_id = chain_id; });
    let rt = tokio::runtime::Builder::new_current_thread().enable_all().build().unwrap();
    let dir = tempfile::TempDir::new_in("/dev/shm").unwrap();
    let e = Arc::new(BRC20ProgEngine::new(Brc20ProgDatabase::new(dir.path()).unwrap()));
    let m = verif_rpc_module(e.clone());
    let call = |method: &str, params: Value| -> Value {
        let req = json!({"jsonrpc":"2.0","id":1,"method":method,"params":params}).to_string();
        let (r, _) = rt.block_on(m.raw_json_request(&req, 1)).unwrap(); serde_json::from_str(r.get()).unwrap() };
    call("brc20_initialise", json!({"genesis_hash":h(0x10),"genesis_timestamp":5,"genesis_height":0}));
    let code = initcode(&ctx_runtime());
    let r = call("brc20_deploy", json!({"from_pkscript":"00","data":format!("0x{}",hex::encode(&code)),"timestamp":7,"hash":h(0x11),"tx_idx":0,"inscription_id":"d","inscription_byte_len":100000,"op_return_tx_id":h(0x70)}));
    assert_eq!(r["result"]["status"], "0x1", "{}", r);
    let addr = r["result"]["contractAddress"].as_str().unwrap().to_string();
    call("brc20_finaliseBlock", json!({"timestamp":7,"hash":h(0x11),"block_tx_count":1}));
    let slots = |tag: &str| { let names = ["NUMBER","TIMESTAMP","PREVRANDAO","CHAINID","BASEFEE","GASPRICE","COINBASE","ORIGIN","CALLER","BH(n-1)","BH(n-2)","BH(n-256)","BH(n-257)","fa.success","fa.word","GASLIMIT","-","fa.retsize"];
        println!("--- {} [{}]", tag, net);
        for (i, n) in names.iter().enumerate() { if *n == "-" { continue; } let v = call("eth_getStorageAt", json!([addr, format!("0x{:x}", i)])); let s = v["result"].as_str().unwrap().trim_start_matches("0x").trim_start_matches('0').to_string(); println!("  {:12} = 0x{}", n, if s.is_empty() {"0".into()} else {s}); } };
    // block 2: inscription call, explicit hash, ts 9, txid 0x77
    let r = call("brc20_call", json!({"from_pkscript":"00","contract_address":addr,"data":"0x00","timestamp":9,"hash":h(0xaa),"tx_idx":0,"inscription_id":"c1","inscription_byte_len":100000,"op_return_tx_id":h(0x77)}));
    println!("call status {} gas {}", r["result"]["status"], r["result"]["gasUsed"]);
    call("brc20_finaliseBlock", json!({"timestamp":9,"hash":h(0xaa),"block_tx_count":1}));
    slots("block 2, inscription call from pkscript 00, txid 0x77..");
    println!("  expected ORIGIN/CALLER = {:?}", get_evm_address_from_pkscript("00").unwrap());
    // block 3 (zero hash -> generated): park nonce 1 with txid 0x81 ; block 4: nonce 0 with txid 0x80 drains it
    let signer = PrivateKeySigner::from_slice(&[7u8; 32]).unwrap();
    let to: Address = addr.parse().unwrap();
    let z = h(0);
    let r = call("brc20_transact", json!({"raw_tx_data":raw_tx(&signer, chain_id, 1, to, vec![1]),"timestamp":11,"hash":z,"tx_idx":0,"inscription_id":"t1","inscription_byte_len":100000,"op_return_tx_id":h(0x81)}));
    println!("park nonce1 -> {} receipts", r["result"].as_array().map(|a| a.len()).unwrap_or(99));
    call("brc20_finaliseBlock", json!({"timestamp":11,"hash":z,"block_tx_count":0}));
    let r = call("brc20_transact", json!({"raw_tx_data":raw_tx(&signer, chain_id, 0, to, vec![0]),"timestamp":13,"hash":z,"tx_idx":0,"inscription_id":"t0","inscription_byte_len":100000,"op_return_tx_id":h(0x80)}));
    println!("nonce0 -> {} receipts {}", r["result"].as_array().map(|a| a.len()).unwrap_or(99), r["error"]);
    call("brc20_finaliseBlock", json!({"timestamp":13,"hash":z,"block_tx_count":2}));
    slots("block 4 after drain: last executed = parked nonce 1 (own txid 0x81..), signer");
    println!("  signer = {:?}", signer.address());
    // deposit context cannot be seen by Ctx; skip
}
