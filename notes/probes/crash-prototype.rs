use brc20_prog::verif_probe::*;
use serde_json::{json, Value};
use std::sync::Arc;
use std::path::Path;
const Z: &str = "0x0000000000000000000000000000000000000000000000000000000000000000";



fn open(path: &Path) -> (tokio::runtime::Runtime, Arc<BRC20ProgEngine>, jsonrpsee::RpcModule<impl Sized>) {
    let rt = tokio::runtime::Builder::new_current_thread().enable_all().build().unwrap();
    let db = Brc20ProgDatabase::new(path).unwrap();
    let e = Arc::new(BRC20ProgEngine::new(db));
    let m = verif_rpc_module(e.clone());
    (rt, e, m)
}

fn main() {
    std::panic::set_hook(Box::new(|_| {}));
    CONFIG.write_fn_unchecked(|c| { c.evm_record_traces = true; });
    let victim = std::env::args().nth(1).unwrap_or("commit".into());
    macro_rules! call { ($rt:expr, $m:expr, $meth:expr, $p:expr) => {{
        let req = json!({"jsonrpc":"2.0","id":1,"method":$meth,"params":$p}).to_string();
        let (r, _) = $rt.block_on($m.raw_json_request(&req, 1)).unwrap();
        serde_json::from_str::<Value>(r.get()).unwrap() }} }
    // history builder: returns contract addr
    macro_rules! prefix { ($rt:expr, $m:expr, $upto:expr) => {{
        call!($rt, $m, "brc20_initialise", json!({"genesis_hash":Z,"genesis_timestamp":1,"genesis_height":0}));
        let r = call!($rt, $m, "brc20_deploy", json!({"from_pkscript":"00","data":"0x6008600c60003960086000f36020356000355500","timestamp":1,"hash":Z,"tx_idx":0,"inscription_id":"d","inscription_byte_len":10000,"op_return_tx_id":Z}));
        let addr = r["result"]["contractAddress"].as_str().unwrap().to_string();
        call!($rt, $m, "brc20_finaliseBlock", json!({"timestamp":1,"hash":Z,"block_tx_count":1}));
        let sets: [(u64,u64,bool);4] = [(0,1,true),(0,2,false),(1,1,false),(0,0,false)]; // (slot,val,commit_after) blocks 2,3,4,5
        for (i,(slot,val,c)) in sets.iter().enumerate() {
            if (i as u64)+2 > $upto { break; }
            let data = format!("0x{:064x}{:064x}", slot, val);
            let r = call!($rt, $m, "brc20_call", json!({"from_pkscript":"00","contract_address":addr,"data":data,"timestamp":1,"hash":Z,"tx_idx":0,"inscription_id":format!("c{}",i),"inscription_byte_len":10000,"op_return_tx_id":Z}));
            assert_eq!(r["result"]["status"], "0x1");
            call!($rt, $m, "brc20_finaliseBlock", json!({"timestamp":1,"hash":Z,"block_tx_count":1}));
            if *c && $upto > 2 { call!($rt, $m, "brc20_commitToDatabase", json!([])); }
        }
        addr }} }
    macro_rules! obs { ($rt:expr, $m:expr, $addr:expr) => {{
        let mut s = String::new();
        for b in 0..8 { for meth in ["eth_getBlockByNumber","debug_getRawBlock","eth_getBlockTransactionCountByNumber","debug_getBlockTraceString"] {
            let p = if meth=="eth_getBlockByNumber" { json!([format!("{}",b), true]) } else { json!([format!("{}",b)]) };
            let mut v = call!($rt, $m, meth, p); if let Some(o) = v.get_mut("result").and_then(|r| r.as_object_mut()) { o.remove("mineTimestamp"); } s.push_str(&v.to_string()); } }
        for i in 0..4 { s.push_str(&call!($rt, $m, "brc20_getTxReceiptByInscriptionId", json!([format!("c{}",i)])).to_string()); }
        for slot in ["0x0","0x1"] { s.push_str(&call!($rt, $m, "eth_getStorageAt", json!([$addr, slot])).to_string()); }
        s.push_str(&call!($rt, $m, "eth_blockNumber", json!([])).to_string());
        s.push_str(&call!($rt, $m, "eth_getTransactionCount", json!(["0x6e340b9cffb37a989ca544e6bb780a2c78901d3f", "latest"])).to_string());
        s }} }
    // reference observations at H = 2 (after committing, to sidestep defect #1)
    let mut refobs = std::collections::HashMap::new();
    for hh in [2u64, 1u64] {
        let d = tempfile::TempDir::new_in("/dev/shm").unwrap();
        let (rt, _e, m) = open(d.path());
        let addr = if hh == 1 { prefix!(rt, m, 1u64) } else { prefix!(rt, m, 2u64) };
        call!(rt, m, "brc20_commitToDatabase", json!([]));
        refobs.insert(hh, obs!(rt, m, addr));
    }
    // count writes of victim
    let run_victim = |rt: &tokio::runtime::Runtime, m: &jsonrpsee::RpcModule<_>| -> Result<Value, ()> {
        std::panic::catch_unwind(std::panic::AssertUnwindSafe(|| {
            if victim == "commit" { call!(rt, m, "brc20_commitToDatabase", json!([])) } else { call!(rt, m, "brc20_reorg", json!([2])) }
        })).map_err(|_| ())
    };
    let n = {
        let d = tempfile::TempDir::new_in("/dev/shm").unwrap();
        let (rt, _e, m) = open(d.path());
        prefix!(rt, m, 5u64);
        VFP_COUNT.with(|c| c.set(0)); VFP_LOG.with(|l| l.borrow_mut().clear());
        let r = run_victim(&rt, &m).unwrap();
        assert!(r["error"].is_null(), "{}", r);
        let n = VFP_COUNT.with(|c| c.get());
        let mut hist = std::collections::BTreeMap::new(); VFP_LOG.with(|l| for s in l.borrow().iter() { *hist.entry(*s).or_insert(0) += 1; });
        println!("victim {} issues {} persistent writes: {:?}", victim, n, hist);
        n
    };
    let t = std::time::Instant::now();
    let mut bad = 0; let mut cases = 0; let mut heights = std::collections::BTreeMap::new();
    for i in 0..=n {
        for hh in [2u64, 1u64] {
            let d = tempfile::TempDir::new_in("/dev/shm").unwrap();
            let addr;
            {
                let (rt, e, m) = open(d.path());
                addr = prefix!(rt, m, 5u64);
                VFP_COUNT.with(|c| c.set(0)); VFP_ARM.with(|a| a.set(i));
                let r = run_victim(&rt, &m);
                VFP_ARM.with(|a| a.set(u64::MAX));
                if i < n { assert!(r.is_err(), "expected crash at {}", i); }
                drop(m); drop(e); drop(rt);
            }
            let (rt, _e, m) = open(d.path());
            let h1 = call!(rt, m, "eth_blockNumber", json!([]))["result"].as_str().unwrap().to_string();
            *heights.entry(h1.clone()).or_insert(0) += 1;
            let r = call!(rt, m, "brc20_reorg", json!([hh]));
            cases += 1;
            if !r["error"].is_null() { bad += 1; println!("i={} H={} reopened height {} reorg refused: {}", i, hh, h1, r["error"]["message"]); continue; }
            let o = obs!(rt, m, addr);
            if o != refobs[&hh] { bad += 1; if bad <= 5 { 
                let a: Vec<char> = o.chars().collect(); let b: Vec<char> = refobs[&hh].chars().collect(); let k = a.iter().zip(b.iter()).position(|(x,y)| x!=y).unwrap_or(0);
                println!("i={} H={} reopened height {} MISMATCH at char {}:\n  got ..{}\n  ref ..{}", i, hh, h1, k, a[k.saturating_sub(80)..(k+60).min(a.len())].iter().collect::<String>(), b[k.saturating_sub(80)..(k+60).min(b.len())].iter().collect::<String>()); } }
        }
    }
    println!("victim {}: {} crash cases, {} bad, reopened heights {:?}, {:.1}s ({:.0} ms/case)", victim, cases, bad, heights, t.elapsed().as_secs_f64(), 1e3*t.elapsed().as_secs_f64()/cases as f64);
}
