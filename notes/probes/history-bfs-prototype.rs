use brc20_prog::verif_probe::*;
use std::collections::{BTreeMap, HashSet, VecDeque};
const W: u64 = 10;
type H = BlockHistoryCacheData<U64ED>;
#[derive(Clone)]
struct S { bytes: Vec<u8>, cur: u64, top: u64, model: BTreeMap<u64, Option<u64>>, depth: u32 }
fn value_at(m: &BTreeMap<u64, Option<u64>>, b: u64) -> Option<u64> { m.range(..=b).next_back().map(|(_, v)| *v).unwrap_or(None) }
fn key(s: &S) -> (Vec<u8>, u64, u64, Vec<Option<u64>>) { let lo = s.cur.saturating_sub(W + 2); (s.bytes.clone(), s.cur, s.top, (lo..=s.cur).map(|b| value_at(&s.model, b)).collect()) }
fn main() {
    std::panic::set_hook(Box::new(|_| {}));
    let maxb: u64 = std::env::args().nth(1).map(|x| x.parse().unwrap()).unwrap_or(30);
    let maxd: u32 = std::env::args().nth(2).map(|x| x.parse().unwrap()).unwrap_or(6);
    let h0 = H::new(None);
    let init = S { bytes: h0.encode_vec(), cur: 1, top: 0, model: BTreeMap::new(), depth: 0 };
    let mut seen: HashSet<u64> = HashSet::new();
    let mut q = VecDeque::new(); q.push_back(init);
    let (mut states, mut trans, mut viol, mut loud, mut maxver, mut maxdepth) = (1u64, 0u64, 0u64, 0u64, 0usize, 0u32);
    let t = std::time::Instant::now();
    while let Some(s) = q.pop_front() {
        maxdepth = maxdepth.max(s.depth);
        let mut succ: Vec<S> = Vec::new();
        let mut h = H::decode_vec(&s.bytes).unwrap();
        assert_eq!(h.encode_vec(), s.bytes, "encode/decode not identity");
        let nver = u32::from_be_bytes(s.bytes[0..4].try_into().unwrap()) as usize; maxver = maxver.max(nver);
        if nver > (W + 1) as usize { viol += 1; println!("VIOLATION: {} versions", nver); }
        if h.latest().map(|v| -> u64 { v.into() }) != value_at(&s.model, u64::MAX) { viol += 1; println!("VIOLATION latest"); }
        // writes at cur (only allowed if cur >= newest version, which holds by construction)
        for w in [Some(1u64), Some(2), None] {
            let mut h2 = h.clone(); match w { Some(v) => h2.set(s.cur, v.into()), None => h2.unset(s.cur) }
            let mut m = s.model.clone(); m.insert(s.cur, w);
            succ.push(S { bytes: h2.encode_vec(), cur: s.cur, top: s.top.max(s.cur), model: m, depth: s.depth + 1 });
        }
        for adv in [1u64, W - 1] { if s.cur + adv <= maxb { succ.push(S { bytes: s.bytes.clone(), cur: s.cur + adv, top: s.top, model: s.model.clone(), depth: s.depth + 1 }); } }
        let newest = s.model.keys().next_back().cloned().unwrap_or(0);
        for j in 1..=(W + 2) { if j > s.cur { break; } let n = s.cur - j;
            let mut h2 = h.clone();
            let r = std::panic::catch_unwind(std::panic::AssertUnwindSafe(|| { h2.reorg(n); h2 }));
            let mut m = s.model.clone(); m.retain(|b, _| *b <= n);
            let within = s.top.saturating_sub(n) <= W; let _ = newest;
            match r {
                Err(_) => { loud += 1; if within { viol += 1; println!("VIOLATION: panic on in-window reorg cur={} n={} newest={} model={:?}", s.cur, n, newest, s.model); } }
                Ok(h3) => { let got: Option<u64> = h3.latest().map(|v| v.into()); let want = value_at(&s.model, n);
                    if got != want { if within { viol += 1; println!("VIOLATION: wrong value after in-window reorg cur={} n={} newest={} got {:?} want {:?} model={:?}", s.cur, n, newest, got, want, s.model); } else { viol += 1; println!("VIOLATION: silently wrong after deep reorg cur={} n={} newest={} got {:?} want {:?} model {:?}", s.cur, n, newest, got, want, s.model); } }
                    succ.push(S { bytes: h3.encode_vec(), cur: n, top: s.top, model: m, depth: s.depth + 1 }); }
            }
        }
        let _ = &mut h;
        for n in succ { trans += 1; if n.depth > maxd { continue; } let k = key(&n); let mut hh = std::collections::hash_map::DefaultHasher::new(); std::hash::Hash::hash(&k, &mut hh); if seen.insert(std::hash::Hasher::finish(&hh)) { states += 1; q.push_back(n); } }
        if states > 20_000_000 { println!("CAP hit"); break; }
        if viol > 5 { break; }
    }
    println!("maxblock {} maxdepth {maxd}: states {} transitions {} violations {} loud-deep-reorgs {} max versions {} max depth {} in {:.1}s", maxb, states, trans, viol, loud, maxver, maxdepth, t.elapsed().as_secs_f64());
}
