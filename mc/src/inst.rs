//! One engine instance: a database directory, the real engine and the real JSON-RPC dispatch table.
use brc20_prog::verif::{self as v, BRC20ProgEngine, Brc20ProgDatabase, VerifDump};
use jsonrpsee::Methods;
use serde_json::{json, Value};
use std::panic::{catch_unwind, AssertUnwindSafe};
use std::path::{Path, PathBuf};
use std::sync::atomic::{AtomicU64, Ordering};

thread_local! {
    // virtual time: a timer that is the only thing left to wait for fires at once, so the 5 s wait
    // of a simulation issued while a block is open ends in its time-out branch immediately
    static RT: tokio::runtime::Runtime = tokio::runtime::Builder::new_current_thread()
        .enable_all()
        .start_paused(true)
        .build()
        .expect("tokio runtime");
}

static DIR_SEQ: AtomicU64 = AtomicU64::new(0);

// ---- call watchdog -------------------------------------------------------------------------------
// A handler that never returns would make a check hang instead of answering. Every request issued through
// this module is registered here; a background thread ends the process (after running the registered
// handler, or printing an `@@HUNG` line for the parent) when one has been running for too long.
struct InFlight {
    since: std::time::Instant,
    what: String,
}
static IN_FLIGHT: std::sync::Mutex<Vec<(u64, InFlight)>> = std::sync::Mutex::new(Vec::new());
static CALL_SEQ: AtomicU64 = AtomicU64::new(1);
static HANG_LIMIT_MS: AtomicU64 = AtomicU64::new(120_000);
static WATCHDOG_STARTED: std::sync::Once = std::sync::Once::new();
#[allow(clippy::type_complexity)]
static HANG_HANDLER: std::sync::Mutex<Option<Box<dyn Fn(&str) + Send>>> = std::sync::Mutex::new(None);

pub const HUNG_EXIT: i32 = 97;

/// Real time after which a request that has not returned counts as hung.
pub fn set_hang_limit(d: std::time::Duration) {
    HANG_LIMIT_MS.store(d.as_millis() as u64, Ordering::SeqCst);
}

/// What to do (before the process exits with HUNG_EXIT) when a request hangs; default: print `@@HUNG <what>`.
pub fn set_hang_handler(f: Box<dyn Fn(&str) + Send>) {
    *HANG_HANDLER.lock().unwrap_or_else(|e| e.into_inner()) = Some(f);
}

fn watchdog_start() {
    WATCHDOG_STARTED.call_once(|| {
        std::thread::spawn(|| loop {
            std::thread::sleep(std::time::Duration::from_millis(500));
            // stretched when the machine is overloaded (1-minute load above the core count, at most x4): a starved
            // process is not a hanging request
            let load = std::fs::read_to_string("/proc/loadavg").ok().and_then(|s| s.split_whitespace().next().and_then(|x| x.parse::<f64>().ok())).unwrap_or(0.0);
            let cores = std::thread::available_parallelism().map(|n| n.get()).unwrap_or(16) as f64;
            let limit = std::time::Duration::from_millis(HANG_LIMIT_MS.load(Ordering::SeqCst)).mul_f64((load / cores).clamp(1.0, 4.0));
            let hung: Option<String> = {
                let g = IN_FLIGHT.lock().unwrap_or_else(|e| e.into_inner());
                g.iter().find(|(_, f)| f.since.elapsed() > limit).map(|(_, f)| f.what.clone())
            };
            if let Some(what) = hung {
                let what = format!("no answer within {} s: {}", limit.as_secs(), what);
                match HANG_HANDLER.lock().unwrap_or_else(|e| e.into_inner()).as_ref() {
                    Some(h) => h(&what),
                    None => println!("@@HUNG {}", what.replace('\n', " ")),
                }
                use std::io::Write;
                let _ = std::io::stdout().flush();
                std::process::exit(HUNG_EXIT);
            }
        });
    });
}

struct CallGuard(u64);

fn call_begin(what: &str) -> CallGuard {
    watchdog_start();
    let id = CALL_SEQ.fetch_add(1, Ordering::SeqCst);
    let mut w = what.to_string();
    if w.len() > 600 {
        let mut e = 600;
        while !w.is_char_boundary(e) {
            e -= 1;
        }
        w.truncate(e);
        w.push('…');
    }
    IN_FLIGHT.lock().unwrap_or_else(|e| e.into_inner()).push((id, InFlight { since: std::time::Instant::now(), what: w }));
    CallGuard(id)
}

impl Drop for CallGuard {
    fn drop(&mut self) {
        IN_FLIGHT.lock().unwrap_or_else(|e| e.into_inner()).retain(|(i, _)| *i != self.0);
    }
}

/// Root of all scratch directories of this process.
pub fn scratch_root() -> PathBuf {
    let base = std::env::var("VERIF_SCRATCH").ok().map(PathBuf::from).unwrap_or_else(|| {
        let shm = Path::new("/dev/shm");
        if shm.is_dir() && std::fs::metadata(shm).map(|m| !m.permissions().readonly()).unwrap_or(false) {
            shm.join("vmc")
        } else {
            PathBuf::from("/verif/.scratch")
        }
    });
    base.join(format!("p{}", std::process::id()))
}

pub fn fresh_dir() -> PathBuf {
    let d = scratch_root().join(format!("d{}", DIR_SEQ.fetch_add(1, Ordering::SeqCst)));
    let _ = std::fs::remove_dir_all(&d);
    std::fs::create_dir_all(&d).expect("create scratch dir");
    d
}

pub fn cleanup_scratch() {
    let _ = std::fs::remove_dir_all(scratch_root());
}

/// Remove scratch roots of processes that no longer exist.
pub fn cleanup_stale_scratch() {
    let root = scratch_root();
    if let Some(base) = root.parent() {
        if let Ok(rd) = std::fs::read_dir(base) {
            for e in rd.flatten() {
                let name = e.file_name().to_string_lossy().to_string();
                if let Some(pid) = name.strip_prefix('p').and_then(|p| p.parse::<u32>().ok()) {
                    if !Path::new(&format!("/proc/{}", pid)).exists() {
                        let _ = std::fs::remove_dir_all(e.path());
                    }
                }
            }
        }
    }
}

/// Global configuration of this process (CONFIG is a process global in the crate).
pub fn set_config(network: &str, traces: bool) {
    let chain_id: u64 = if network == "bitcoin" || network == "mainnet" { 0x4252433230 } else { 0x425243323073 };
    v::CONFIG.write_fn_unchecked(|c| {
        c.evm_record_traces = traces;
        c.bitcoin_rpc_network = network.to_string();
        c.chain_id = chain_id;
        // unreachable on purpose: nothing in the sandbox listens there
        c.bitcoin_rpc_url = "http://127.0.0.1:1".to_string();
        c.fail_on_bitcoin_rpc_error = true;
    });
}

pub fn chain_id() -> u64 {
    v::CONFIG.read().chain_id
}

pub struct Inst {
    pub dir: PathBuf,
    methods: Option<Methods>,
    engine: *const BRC20ProgEngine,
    /// set when a handler panicked (locks may be poisoned / the database moved out)
    pub broken: bool,
    pub uses: u64,
    owns_dir: bool,
}

#[derive(Debug, Clone)]
pub enum CallOutcome {
    /// the JSON-RPC response object
    Resp(Value),
    /// the handler panicked; payload text
    Panic(String),
}

impl CallOutcome {
    pub fn is_ok(&self) -> bool {
        matches!(self, CallOutcome::Resp(v) if v.get("error").is_none())
    }
    pub fn is_err(&self) -> bool {
        matches!(self, CallOutcome::Resp(v) if v.get("error").is_some())
    }
    pub fn is_panic(&self) -> bool {
        matches!(self, CallOutcome::Panic(_))
    }
    pub fn result(&self) -> Option<&Value> {
        match self {
            CallOutcome::Resp(v) => v.get("result"),
            _ => None,
        }
    }
    pub fn err_msg(&self) -> Option<String> {
        match self {
            CallOutcome::Resp(v) => v.get("error").map(|e| e.get("message").and_then(|m| m.as_str()).unwrap_or("").to_string()),
            CallOutcome::Panic(p) => Some(format!("PANIC: {}", p)),
        }
    }
    pub fn to_value(&self) -> Value {
        match self {
            CallOutcome::Resp(v) => {
                let mut v = v.clone();
                if let Some(o) = v.as_object_mut() {
                    o.remove("jsonrpc");
                    o.remove("id");
                }
                v
            }
            CallOutcome::Panic(p) => json!({"panic": p}),
        }
    }
}

pub fn panic_text(p: &Box<dyn std::any::Any + Send>) -> String {
    if let Some(s) = p.downcast_ref::<&str>() {
        s.to_string()
    } else if let Some(s) = p.downcast_ref::<String>() {
        s.clone()
    } else if let Some(c) = p.downcast_ref::<v::VerifCrash>() {
        format!("VerifCrash({}, {})", c.0, c.1)
    } else {
        "<non-string panic>".to_string()
    }
}

impl Inst {
    pub fn fresh() -> Inst {
        let dir = fresh_dir();
        let mut i = Inst::open(&dir);
        i.owns_dir = true;
        i
    }

    fn open_parts(dir: &Path) -> (Methods, *const BRC20ProgEngine) {
        let db = Brc20ProgDatabase::new(dir).expect("open database");
        let engine = BRC20ProgEngine::new(db);
        let methods = v::verif_rpc_module(engine);
        let req = r#"{"jsonrpc":"2.0","id":1,"method":"verif_enginePtr","params":[]}"#;
        let (resp, _) = RT.with(|rt| rt.block_on(methods.raw_json_request(req, 1))).expect("verif_enginePtr");
        let val: Value = serde_json::from_str(resp.get()).expect("json");
        let ptr = val.get("result").and_then(|r| r.as_u64()).expect("engine pointer") as usize;
        (methods, ptr as *const BRC20ProgEngine)
    }

    pub fn open(dir: &Path) -> Inst {
        let (methods, engine) = Inst::open_parts(dir);
        Inst { dir: dir.to_path_buf(), methods: Some(methods), engine, broken: false, uses: 0, owns_dir: false }
    }

    pub fn methods(&self) -> &Methods {
        self.methods.as_ref().expect("instance closed")
    }

    pub fn engine(&self) -> &BRC20ProgEngine {
        assert!(self.methods.is_some());
        // SAFETY: the engine lives inside the Arc<RpcServer> owned by `self.methods`
        unsafe { &*self.engine }
    }

    pub fn method_names(&self) -> Vec<&'static str> {
        let mut v: Vec<&'static str> = self.methods.as_ref().unwrap().method_names().filter(|m| !m.starts_with("verif_")).collect();
        v.sort();
        v
    }

    /// Issue one JSON-RPC request given as text; panics of the handler are caught.
    pub fn call_text(&mut self, req: &str) -> CallOutcome {
        self.uses += 1;
        let methods = self.methods.as_ref().expect("instance closed");
        let _g = call_begin(req);
        let r = catch_unwind(AssertUnwindSafe(|| RT.with(|rt| rt.block_on(methods.raw_json_request(req, 1)))));
        match r {
            Ok(Ok((resp, _))) => CallOutcome::Resp(serde_json::from_str(resp.get()).expect("response json")),
            Ok(Err(e)) => CallOutcome::Resp(json!({"error": {"code": -32700, "message": format!("parse error: {}", e)}})),
            Err(p) => {
                self.broken = true;
                CallOutcome::Panic(panic_text(&p))
            }
        }
    }

    /// Raw response text of a request (no parsing); `None` if the handler panicked.
    pub fn call_raw(&mut self, method: &str, params: &Value) -> Option<String> {
        self.uses += 1;
        let req = format!(r#"{{"jsonrpc":"2.0","id":1,"method":"{}","params":{}}}"#, method, params);
        let methods = self.methods.as_ref().expect("instance closed");
        let _g = call_begin(&req);
        let r = catch_unwind(AssertUnwindSafe(|| RT.with(|rt| rt.block_on(methods.raw_json_request(&req, 1)))));
        match r {
            Ok(Ok((resp, _))) => Some(resp.get().to_string()),
            Ok(Err(e)) => Some(format!("parse error: {}", e)),
            Err(_) => {
                self.broken = true;
                None
            }
        }
    }

    pub fn call(&mut self, method: &str, params: Value) -> CallOutcome {
        let req = json!({"jsonrpc": "2.0", "id": 1, "method": method, "params": params}).to_string();
        self.call_text(&req)
    }

    /// Make the live instance indistinguishable from a freshly created one.
    pub fn wipe(&mut self) {
        if self.broken {
            self.recreate();
        } else {
            self.engine().verif_wipe();
        }
    }

    pub fn dump(&self) -> VerifDump {
        self.engine().verif_dump()
    }

    pub fn close(&mut self) {
        self.methods = None;
        self.engine = std::ptr::null();
    }

    pub fn is_open(&self) -> bool {
        self.methods.is_some()
    }

    /// Real stop / start on the same directory.
    pub fn reopen(&mut self) {
        self.close();
        let (methods, engine) = Inst::open_parts(&self.dir);
        self.methods = Some(methods);
        self.engine = engine;
        self.broken = false;
    }

    /// Drop everything and start from an empty directory.
    pub fn recreate(&mut self) {
        self.close();
        let _ = std::fs::remove_dir_all(&self.dir);
        std::fs::create_dir_all(&self.dir).expect("mkdir");
        let (methods, engine) = Inst::open_parts(&self.dir);
        self.methods = Some(methods);
        self.engine = engine;
        self.broken = false;
        self.uses = 0;
    }
}

impl Drop for Inst {
    fn drop(&mut self) {
        self.close();
        if self.owns_dir {
            let _ = std::fs::remove_dir_all(&self.dir);
        }
    }
}

/// Issue a request on a dispatch table from any thread (each thread has its own runtime).
pub fn call_on(methods: &Methods, method: &str, params: &Value) -> CallOutcome {
    let req = json!({"jsonrpc": "2.0", "id": 1, "method": method, "params": params}).to_string();
    let _g = call_begin(&req);
    let r = catch_unwind(AssertUnwindSafe(|| RT.with(|rt| rt.block_on(methods.raw_json_request(&req, 1)))));
    match r {
        Ok(Ok((resp, _))) => CallOutcome::Resp(serde_json::from_str(resp.get()).expect("response json")),
        Ok(Err(e)) => CallOutcome::Resp(json!({"error": {"code": -32700, "message": format!("parse error: {}", e)}})),
        Err(p) => CallOutcome::Panic(panic_text(&p)),
    }
}
