//! Observation function (every read method over a universe) and state fingerprints.
use crate::inst::Inst;
use crate::util::*;
use crate::world::{Universe, W};
use brc20_prog::verif::types::BlockResponseED;
use brc20_prog::verif::{Decode, Encode, VerifDump};
use serde_json::{json, Value};
use std::collections::BTreeMap;

/// Methods that `obs` issues or deliberately leaves out; a registered method that is in neither
/// list fails the run loudly (a method added later must be classified).
pub const OBSERVED: &[&str] = &[
    "eth_blockNumber", "eth_getBlockByNumber", "eth_getBlockByHash", "eth_getTransactionCount", "eth_getBlockTransactionCountByNumber",
    "eth_getBlockTransactionCountByHash", "eth_getLogs", "eth_getStorageAt", "eth_getCode", "eth_getTransactionReceipt",
    "debug_traceTransaction", "debug_getBlockTraceString", "debug_getBlockTraceHash", "eth_getTransactionByHash",
    "eth_getTransactionByBlockNumberAndIndex", "eth_getTransactionByBlockHashAndIndex", "txpool_content", "txpool_contentFrom",
    "debug_getRawHeader", "debug_getRawBlock", "debug_getRawReceipts", "brc20_getTxReceiptByInscriptionId",
    "brc20_getInscriptionIdByTxHash", "brc20_getInscriptionIdByContractAddress",
];
/// state-independent answers, observed once per obs
pub const CONSTANT: &[&str] = &[
    "brc20_version", "eth_chainId", "eth_maxPriorityFeePerGas", "eth_blobBaseFee", "eth_getBalance", "eth_getUncleCountByBlockNumber",
    "eth_getUncleCountByBlockHash", "eth_getUncleByBlockNumberAndIndex", "eth_getUncleByBlockHashAndIndex", "net_version",
    "web3_clientVersion", "web3_sha3", "eth_accounts", "eth_gasPrice", "eth_syncing",
];
/// executing reads (simulations): observed by the properties that are about them (C07, C10, C16, C17)
pub const SIMULATING: &[&str] = &["eth_call", "eth_callMany", "eth_estimateGas", "eth_estimateGasMany", "brc20_balance"];
pub const WRITES: &[&str] = &[
    "brc20_mine", "brc20_deploy", "brc20_call", "brc20_transact", "brc20_deposit", "brc20_withdraw", "brc20_initialise",
    "brc20_finaliseBlock", "brc20_reorg", "brc20_commitToDatabase", "brc20_clearCaches",
];

pub fn check_method_table(inst: &Inst) -> Result<(), String> {
    for m in inst.method_names() {
        if !(OBSERVED.contains(&m) || CONSTANT.contains(&m) || SIMULATING.contains(&m) || WRITES.contains(&m)) {
            return Err(format!("registered method {} is not classified by the observation function", m));
        }
    }
    Ok(())
}

pub struct ObsCfg {
    /// storage slots observed on every address
    pub slots: Vec<u64>,
    /// extra simulation probes (method, params), only issued when no block is open
    pub probes: Vec<(String, Value)>,
    pub open_block: bool,
}

impl Default for ObsCfg {
    fn default() -> Self {
        ObsCfg { slots: vec![0, 1, 2, 3], probes: Vec::new(), open_block: false }
    }
}

/// Heights observed: 0, 1, the band [top-(W+2), top+2] where top = highest height ever mentioned.
pub fn height_band(top: u64) -> Vec<u64> {
    let mut v: Vec<u64> = vec![0, 1];
    let lo = top.saturating_sub(W + 2);
    for b in lo..=top + 2 {
        if !v.contains(&b) {
            v.push(b);
        }
    }
    v
}

/// Canonical text of every read method applied to the universe. One line per query.
pub fn obs(inst: &mut Inst, uni: &Universe, cfg: &ObsCfg) -> String {
    let mut out = String::with_capacity(1 << 16);
    let mut q = |inst: &mut Inst, out: &mut String, m: &str, p: Value| {
        out.push_str(m);
        out.push(' ');
        out.push_str(&p.to_string());
        out.push_str(" => ");
        if m.starts_with("txpool_") {
            // the only answers built from unordered maps: JSON object key order is not significant
            let r = inst.call(m, p);
            out.push_str(&canon(&r.to_value()));
        } else {
            // every other answer is compared byte for byte (block processing time masked)
            match inst.call_raw(m, &p) {
                Some(text) => push_masked(out, &text),
                None => out.push_str("PANIC"),
            }
        }
        out.push('\n');
    };
    q(inst, &mut out, "eth_blockNumber", json!([]));
    for b in height_band(uni.max_height) {
        let bs = format!("{}", b);
        let bx = format!("0x{:x}", b);
        q(inst, &mut out, "eth_getBlockByNumber", json!([bs, false]));
        q(inst, &mut out, "eth_getBlockByNumber", json!([bx, true]));
        q(inst, &mut out, "eth_getBlockTransactionCountByNumber", json!([bs]));
        q(inst, &mut out, "debug_getRawHeader", json!([bs]));
        q(inst, &mut out, "debug_getRawBlock", json!([bs]));
        q(inst, &mut out, "debug_getRawReceipts", json!([bs]));
        q(inst, &mut out, "debug_getBlockTraceString", json!([bs]));
        q(inst, &mut out, "debug_getBlockTraceHash", json!([bs]));
        // (two-digit indexes too: blocks of 12 transactions exist in some alphabets)
        for i in [0u64, 1, 2, 9, 10, 11, 12] {
            q(inst, &mut out, "eth_getTransactionByBlockNumberAndIndex", json!([b, i]));
        }
        q(inst, &mut out, "eth_getLogs", json!([{"fromBlock": bs, "toBlock": bs}]));
    }
    for tag in ["latest", "pending", "earliest", "safe", "finalized"] {
        q(inst, &mut out, "eth_getBlockByNumber", json!([tag, false]));
    }
    q(inst, &mut out, "eth_getLogs", json!([{}]));
    {
        let top = uni.max_height;
        q(inst, &mut out, "eth_getLogs", json!([{"fromBlock": format!("{}", top.saturating_sub(5)), "toBlock": format!("{}", top)}]));
    }
    for h in uni.h32.iter().chain(std::iter::once(&h32(0xfe))) {
        q(inst, &mut out, "eth_getBlockByHash", json!([h, true]));
        q(inst, &mut out, "eth_getBlockByHash", json!([h, false]));
        q(inst, &mut out, "eth_getBlockTransactionCountByHash", json!([h]));
        q(inst, &mut out, "eth_getTransactionByBlockHashAndIndex", json!([h, 0]));
        q(inst, &mut out, "eth_getTransactionByBlockHashAndIndex", json!([h, 1]));
        q(inst, &mut out, "debug_getRawHeader", json!([h]));
        q(inst, &mut out, "eth_getTransactionByHash", json!([h]));
        q(inst, &mut out, "eth_getTransactionReceipt", json!([h]));
        q(inst, &mut out, "debug_traceTransaction", json!([h]));
        q(inst, &mut out, "brc20_getInscriptionIdByTxHash", json!([h]));
    }
    for i in uni.inscs.iter().chain(std::iter::once(&"never-used".to_string())) {
        q(inst, &mut out, "brc20_getTxReceiptByInscriptionId", json!([i]));
    }
    for a in uni.addrs.iter().chain(std::iter::once(&"0x00000000000000000000000000000000000000ee".to_string())) {
        q(inst, &mut out, "eth_getCode", json!([a]));
        q(inst, &mut out, "eth_getTransactionCount", json!([a, "latest"]));
        q(inst, &mut out, "brc20_getInscriptionIdByContractAddress", json!([a]));
        q(inst, &mut out, "txpool_contentFrom", json!([a]));
        for s in &cfg.slots {
            q(inst, &mut out, "eth_getStorageAt", json!([a, format!("0x{:x}", s)]));
        }
        q(inst, &mut out, "eth_getStorageAt", json!([a, hx(&crate::asm::WIDE_KEY)]));
    }
    q(inst, &mut out, "txpool_content", json!([]));
    if !cfg.open_block {
        for (m, p) in &cfg.probes {
            q(inst, &mut out, m, p.clone());
        }
    }
    out
}

/// Append `text` with the value of every "mineTimestamp" field replaced by 0x0.
fn push_masked(out: &mut String, text: &str) {
    const KEY: &str = "\"mineTimestamp\":\"";
    let mut rest = text;
    while let Some(i) = rest.find(KEY) {
        out.push_str(&rest[..i + KEY.len()]);
        let after = &rest[i + KEY.len()..];
        let end = after.find('"').unwrap_or(after.len());
        out.push_str("0x0");
        rest = &after[end..];
    }
    out.push_str(rest);
}

/// The state-independent methods (used once per run by C02's digest).
pub fn obs_constants(inst: &mut Inst) -> String {
    let mut out = String::new();
    let z = h32(0);
    let a = "0x00000000000000000000000000000000000000ee";
    for (m, p) in [
        ("brc20_version", json!([])), ("eth_chainId", json!([])), ("eth_maxPriorityFeePerGas", json!([])), ("eth_blobBaseFee", json!([])),
        ("eth_getBalance", json!([a, "latest"])), ("eth_getUncleCountByBlockNumber", json!([0])), ("eth_getUncleCountByBlockHash", json!([z])),
        ("eth_getUncleByBlockNumberAndIndex", json!([0, 0])), ("eth_getUncleByBlockHashAndIndex", json!([z, 0])), ("net_version", json!([])),
        ("web3_sha3", json!(["0x00"])), ("eth_accounts", json!([])), ("eth_gasPrice", json!([])), ("eth_syncing", json!([])),
    ] {
        let r = inst.call(m, p);
        out.push_str(m);
        out.push_str(" => ");
        out.push_str(&canon(&r.to_value()));
        out.push('\n');
    }
    out
}

fn mask_block_row(v: &[u8]) -> Vec<u8> {
    match BlockResponseED::decode_vec(&v.to_vec()) {
        Ok(mut b) => {
            b.mine_timestamp = 0u128.into();
            b.encode_vec()
        }
        Err(_) => v.to_vec(),
    }
}

/// The dump with the block processing time masked.
pub fn masked(mut d: VerifDump) -> VerifDump {
    for t in d.tables.iter_mut() {
        if t.name == "db_block_number_to_block" {
            for (_, v) in t.db.iter_mut() {
                *v = mask_block_row(v);
            }
            for c in t.cache.iter_mut() {
                if let Some(v) = c.latest.as_mut() {
                    *v = mask_block_row(v);
                }
            }
        }
    }
    d
}

/// Fingerprint of the complete representation (used only for state matching / counting).
pub fn fp(d: &VerifDump) -> u128 {
    h128(d)
}

/// Logical content: per table the merged key -> latest value map, heights, the open block.
pub fn logical(d: &VerifDump) -> BTreeMap<String, BTreeMap<Vec<u8>, Vec<u8>>> {
    let mut out = BTreeMap::new();
    for t in &d.tables {
        let mut m: BTreeMap<Vec<u8>, Vec<u8>> = t.db.iter().cloned().collect();
        for c in &t.cache {
            match &c.latest {
                Some(v) => {
                    m.insert(c.key.clone(), v.clone());
                }
                None => {
                    m.remove(&c.key);
                }
            }
        }
        out.insert(t.name.to_string(), m);
    }
    let mut meta = BTreeMap::new();
    if d.last_block_info.0 != 0 {
        let (c, ts, h, g, l) = d.last_block_info;
        meta.insert(b"open".to_vec(), format!("{} {} {} {} {}", c, ts, hex::encode(h), g, l).into_bytes());
    }
    out.insert("~meta".to_string(), meta);
    out
}

pub fn lfp(d: &VerifDump) -> u128 {
    h128(&logical(d))
}

/// Human-readable difference between two logical states.
pub fn logical_diff(a: &VerifDump, b: &VerifDump) -> String {
    let la = logical(a);
    let lb = logical(b);
    let mut s = String::new();
    for (name, ma) in &la {
        let empty = BTreeMap::new();
        let mb = lb.get(name).unwrap_or(&empty);
        for (k, v) in ma {
            match mb.get(k) {
                None => s.push_str(&format!("{}: key {} removed (was {} bytes)\n", name, hex::encode(k), v.len())),
                Some(w) if w != v => s.push_str(&format!("{}: key {} changed {} -> {}\n", name, hex::encode(k), hex::encode(&v[..v.len().min(40)]), hex::encode(&w[..w.len().min(40)]))),
                _ => {}
            }
        }
        for k in mb.keys() {
            if !ma.contains_key(k) {
                s.push_str(&format!("{}: key {} added\n", name, hex::encode(k)));
            }
        }
    }
    s
}
