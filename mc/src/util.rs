//! Small helpers: stable hashing, canonical JSON, hex.
use serde_json::Value;
use std::hash::{Hash, Hasher};

/// Deterministic 64-bit hash (SipHash with fixed keys).
pub fn h64<T: Hash + ?Sized>(t: &T) -> u64 {
    let mut h = std::collections::hash_map::DefaultHasher::new();
    t.hash(&mut h);
    h.finish()
}

pub fn h128<T: Hash + ?Sized>(t: &T) -> u128 {
    let mut a = std::collections::hash_map::DefaultHasher::new();
    0xA5A5u16.hash(&mut a);
    t.hash(&mut a);
    let mut b = std::collections::hash_map::DefaultHasher::new();
    0x5A5Au16.hash(&mut b);
    t.hash(&mut b);
    ((a.finish() as u128) << 64) | b.finish() as u128
}

/// Canonical text of a JSON value: object keys sorted, `mineTimestamp` zeroed, arrays in order.
pub fn canon(v: &Value) -> String {
    let mut s = String::new();
    canon_into(v, &mut s);
    s
}

fn canon_into(v: &Value, out: &mut String) {
    match v {
        Value::Object(m) => {
            let mut keys: Vec<&String> = m.keys().collect();
            keys.sort();
            out.push('{');
            for (i, k) in keys.iter().enumerate() {
                if i > 0 {
                    out.push(',');
                }
                out.push_str(&serde_json::to_string(k).unwrap());
                out.push(':');
                if k.as_str() == "mineTimestamp" {
                    out.push_str("\"0x0\"");
                } else {
                    canon_into(&m[*k], out);
                }
            }
            out.push('}');
        }
        Value::Array(a) => {
            out.push('[');
            for (i, x) in a.iter().enumerate() {
                if i > 0 {
                    out.push(',');
                }
                canon_into(x, out);
            }
            out.push(']');
        }
        other => out.push_str(&other.to_string()),
    }
}

pub fn hx(b: &[u8]) -> String {
    format!("0x{}", hex::encode(b))
}

pub fn h32(fill: u8) -> String {
    hx(&[fill; 32])
}

pub fn zero32() -> String {
    h32(0)
}

pub fn parse_hex_u64(s: &str) -> Option<u64> {
    u64::from_str_radix(s.trim_start_matches("0x"), 16).ok()
}

/// First position where two strings differ, with context (for diffs in replay files).
pub fn first_diff(a: &str, b: &str) -> String {
    let ab = a.as_bytes();
    let bb = b.as_bytes();
    let i = ab.iter().zip(bb.iter()).position(|(x, y)| x != y).unwrap_or(ab.len().min(bb.len()));
    let lo = i.saturating_sub(160);
    let cut = |s: &[u8]| String::from_utf8_lossy(&s[lo.min(s.len())..(i + 160).min(s.len())]).to_string();
    format!("at byte {}: A=…{}… B=…{}…", i, cut(ab), cut(bb))
}

pub fn now() -> std::time::Instant {
    std::time::Instant::now()
}

pub fn rss_mb() -> u64 {
    std::fs::read_to_string("/proc/self/statm")
        .ok()
        .and_then(|s| s.split_whitespace().nth(1).and_then(|x| x.parse::<u64>().ok()))
        .map(|pages| pages * 4096 / (1024 * 1024))
        .unwrap_or(0)
}
