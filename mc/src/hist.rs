//! Scenario plumbing shared by the history-explorer properties: worker side and parent side.
use crate::evidence::{self, Evidence};
use crate::explore::*;
use crate::inst;
use crate::world::*;
use serde_json::{json, Value};
use std::collections::{BTreeMap, BTreeSet};
use std::io::Read;
use std::time::{Duration, Instant};

pub struct Scenario {
    pub name: String,
    pub opts: Opts,
    /// (name, steps) — the start state itself and the seed histories
    pub starts: Vec<(String, Vec<Step>)>,
    pub alphabet: Vec<Macro>,
    pub bounds: Bounds,
    /// share of the worker's time budget
    pub weight: f64,
    pub network: String,
    pub traces: bool,
}

pub type OracleFactory = fn(&Scenario) -> Option<BoundaryOracle<'static>>;

pub struct WorkerArgs {
    pub shard: u64,
    pub nshards: u64,
    pub budget_s: f64,
    pub seed: u64,
    pub validate_n: usize,
}

/// Worker: explore this shard of every (scenario, start). Returns per-scenario stats.
pub fn run_worker(scenarios: Vec<Scenario>, oracle: Option<OracleFactory>, a: &WorkerArgs) -> BTreeMap<String, Stats> {
    let mut out = BTreeMap::new();
    let mut remaining_w: f64 = scenarios.iter().map(|s| s.weight * s.starts.len() as f64).sum();
    let t0 = Instant::now();
    // one configuration per process: all scenarios of a worker must agree
    if let Some(s) = scenarios.first() {
        inst::set_config(&s.network, s.traces);
        for t in &scenarios {
            assert!(t.network == s.network && t.traces == s.traces, "one configuration per worker process");
        }
    }
    // pass 0: every (scenario, start) gets its weighted share of the budget; later passes hand the time that
    // was left over to the enumerations that were cut off, which resume where they stopped
    struct Slot {
        sc: usize,
        start: usize,
        resume: Option<u64>,
        stats: Vec<Stats>,
        depth_completed: usize,
    }
    let mut slots: Vec<Slot> = Vec::new();
    for (i, sc) in scenarios.iter().enumerate() {
        for j in 0..sc.starts.len() {
            slots.push(Slot { sc: i, start: j, resume: Some(0), stats: Vec::new(), depth_completed: 0 });
        }
    }
    for pass in 0..4 {
        let todo: Vec<usize> = (0..slots.len()).filter(|k| slots[*k].resume.is_some() && slots[*k].resume != Some(u64::MAX)).collect();
        if todo.is_empty() {
            break;
        }
        if pass > 0 && a.budget_s - t0.elapsed().as_secs_f64() < 1.5 {
            break;
        }
        remaining_w = todo.iter().map(|k| scenarios[slots[*k].sc].weight).sum();
        for k in todo {
            let sc = &scenarios[slots[k].sc];
            let (sname, setup) = &sc.starts[slots[k].start];
            // share of what is left: time not used by earlier scenarios is handed on
            let left = (a.budget_s - t0.elapsed().as_secs_f64()).max(0.5);
            let deadline = Instant::now() + Duration::from_secs_f64(left * sc.weight / remaining_w);
            remaining_w -= sc.weight;
            let mut runner = Runner::new(sc.opts.clone(), sname, setup.clone(), sc.alphabet.clone());
            if pass == 0 {
                if let Err(e) = crate::obs::check_method_table(&runner.subject) {
                    runner.stats.machinery_errors.push(e);
                }
            }
            if let Some(f) = oracle {
                runner.oracle = f(sc);
            }
            let t = Instant::now();
            let from = slots[k].resume.unwrap_or(0);
            let stopped = explore(&mut runner, &sc.bounds, &Shard { index: a.shard, count: a.nshards, chunk: 32 }, deadline, a.seed, if pass == 0 { a.validate_n } else { 0 }, from);
            let mut st = runner.finish();
            st.wall_s = t.elapsed().as_secs_f64();
            if pass > 0 {
                st.counters.insert("resumed_enumerations".into(), 1);
            }
            slots[k].resume = stopped;
            slots[k].depth_completed = st.depth_completed;
            slots[k].stats.push(st);
        }
    }
    for (i, sc) in scenarios.iter().enumerate() {
        let mut agg = Stats { complete: true, depth_completed: sc.bounds.depth, ..Default::default() };
        for sl in slots.iter_mut().filter(|s| s.sc == i) {
            let mut wall = 0.0;
            for st in sl.stats.drain(..) {
                wall += st.wall_s;
                agg.merge(st);
            }
            agg.wall_s = agg.wall_s.max(wall);
            agg.complete &= sl.resume.is_none();
            agg.depth_completed = agg.depth_completed.min(sl.depth_completed);
        }
        out.insert(sc.name.clone(), agg);
    }
    out
}

pub fn worker_main(scenarios: Vec<Scenario>, oracle: Option<OracleFactory>, a: &WorkerArgs) {
    let r = run_worker(scenarios, oracle, a);
    inst::cleanup_scratch();
    println!("@@RESULT {}", serde_json::to_string(&r).unwrap());
}

pub struct ParentCfg {
    pub property: String,
    pub tier: String,
    pub level: String,
    pub nworkers: u64,
    pub budget_s: f64,
    pub seed: u64,
    pub validate_total: usize,
    pub rule: String,
    pub assumptions: Vec<String>,
    /// extra worker argument (e.g. configuration)
    pub extra: Vec<String>,
    /// configuration groups ("network/traces"); each group gets its own worker processes
    pub groups: Vec<String>,
    /// an additional pass of the property running concurrently with the workers (joined after them)
    pub extra_pass: std::cell::RefCell<Option<std::thread::JoinHandle<(Value, Vec<Violation>, Vec<String>)>>>,
}

/// Spawn `n` worker processes `vmc worker <property> <tier> <i> <n> <budget> <seed> <validate> [extra..]`
/// and return the payload of each one's `@@RESULT` line (or an error text).
pub fn spawn_generic(property: &str, tier: &str, n: u64, budget_s: f64, seed: u64, validate: u64, extra: &[String]) -> Vec<Result<String, String>> {
    let exe = std::env::current_exe().expect("exe");
    let mut children = Vec::new();
    for i in 0..n {
        let mut c = std::process::Command::new(&exe);
        c.arg("worker").arg(property).arg(tier).arg(i.to_string()).arg(n.to_string()).arg(format!("{}", budget_s)).arg(seed.to_string()).arg(validate.to_string());
        for e in extra {
            c.arg(e);
        }
        c.stdout(std::process::Stdio::piped()).stderr(std::process::Stdio::piped());
        children.push(c.spawn().expect("spawn worker"));
    }
    let mut out = Vec::new();
    for (i, mut ch) in children.into_iter().enumerate() {
        let mut so = String::new();
        let mut stdout = ch.stdout.take().unwrap();
        let mut stderr = ch.stderr.take().unwrap();
        let th = std::thread::spawn(move || {
            let mut s = String::new();
            let _ = stderr.read_to_string(&mut s);
            s
        });
        let _ = stdout.read_to_string(&mut so);
        let se = th.join().unwrap_or_default();
        let status = ch.wait().expect("wait");
        match so.lines().rev().find(|l| l.starts_with("@@RESULT ")) {
            Some(l) => out.push(Ok(l["@@RESULT ".len()..].to_string())),
            None => match so.lines().rev().find(|l| l.starts_with("@@HUNG ")) {
                Some(h) => out.push(Err(format!("@@HUNG worker {}: a request did not return: {}", i, &h["@@HUNG ".len()..]))),
                None => out.push(Err(format!("worker {} produced no result (status {:?}); stderr tail: {}", i, status.code(), tail(&se, 1500)))),
            },
        }
    }
    out
}

/// Spawn worker processes of this binary and merge what they report.
pub fn spawn_workers(p: &ParentCfg) -> (BTreeMap<String, Stats>, Vec<String>) {
    let exe = std::env::current_exe().expect("exe");
    let mut children = Vec::new();
    // one configuration (network, trace flag) per worker process: workers are split into groups
    let groups: Vec<String> = if p.groups.is_empty() { vec![String::new()] } else { p.groups.clone() };
    let per = (p.nworkers / groups.len() as u64).max(1);
    for g in &groups {
        for i in 0..per {
            let mut c = std::process::Command::new(&exe);
            c.arg("worker").arg(&p.property).arg(&p.tier).arg(i.to_string()).arg(per.to_string()).arg(format!("{}", p.budget_s)).arg(p.seed.to_string()).arg(((p.validate_total as u64 + p.nworkers - 1) / p.nworkers).to_string());
            c.arg(format!("group={}", g));
            for e in &p.extra {
                c.arg(e);
            }
            c.stdout(std::process::Stdio::piped()).stderr(std::process::Stdio::piped());
            children.push(c.spawn().expect("spawn worker"));
        }
    }
    let mut merged: BTreeMap<String, Stats> = BTreeMap::new();
    let mut errors = Vec::new();
    for (i, mut ch) in children.into_iter().enumerate() {
        let mut so = String::new();
        let mut se = String::new();
        // read stdout fully, then stderr (workers write little to stderr: tracing is off)
        let mut stdout = ch.stdout.take().unwrap();
        let mut stderr = ch.stderr.take().unwrap();
        let th = std::thread::spawn(move || {
            let mut s = String::new();
            let _ = stderr.read_to_string(&mut s);
            s
        });
        let _ = stdout.read_to_string(&mut so);
        se.push_str(&th.join().unwrap_or_default());
        let status = ch.wait().expect("wait");
        let line = so.lines().rev().find(|l| l.starts_with("@@RESULT "));
        match line {
            Some(l) => {
                let r: BTreeMap<String, Stats> = serde_json::from_str(&l["@@RESULT ".len()..]).expect("worker json");
                for (k, v) in r {
                    match merged.get_mut(&k) {
                        Some(m) => {
                            let c = v.complete;
                            let d = v.depth_completed;
                            m.merge(v);
                            m.complete &= c;
                            m.depth_completed = m.depth_completed.min(d);
                        }
                        None => {
                            merged.insert(k, v);
                        }
                    }
                }
            }
            None => match so.lines().rev().find(|l| l.starts_with("@@HUNG ")) {
                Some(h) => errors.push(format!("worker {}: a request did not return (the check cannot go on; hangs are decided by C09 / C11): {}", i, &h["@@HUNG ".len()..])),
                None => errors.push(format!("worker {} produced no result (status {:?}); stderr tail: {}", i, status.code(), tail(&se, 1500))),
            },
        }
    }
    (merged, errors)
}

fn tail(s: &str, n: usize) -> String {
    if s.len() <= n {
        s.to_string()
    } else {
        let mut b = s.len() - n;
        while !s.is_char_boundary(b) {
            b += 1;
        }
        s[b..].to_string()
    }
}

/// Parent: run workers, write evidence + replay files, print verdict lines, return exit code.
pub fn parent_main(p: &ParentCfg, expected_scenarios: &[(String, usize)]) -> i32 {
    let t0 = Instant::now();
    inst::cleanup_stale_scratch();
    let (merged, mut errors) = spawn_workers(p);
    let (extra_coverage, extra_violations, extra_errors) = match p.extra_pass.borrow_mut().take() {
        Some(h) => {
            let (c, v, e) = h.join().expect("additional pass");
            (Some(c), v, e)
        }
        None => (None, vec![], vec![]),
    };
    errors.extend(extra_errors);
    let mut total = Stats { complete: true, ..Default::default() };
    let mut per_scenario = Vec::new();
    let mut states: BTreeSet<String> = BTreeSet::new();
    let mut outcomes: BTreeSet<String> = BTreeSet::new();
    for (name, st) in &merged {
        states.extend(st.states.iter().cloned());
        outcomes.extend(st.obs_outcomes.iter().cloned());
        let target = expected_scenarios.iter().find(|(n, _)| n == name).map(|x| x.1).unwrap_or(0);
        per_scenario.push(json!({
            "scenario": name, "paths": st.paths, "transitions": st.transitions, "observed": st.observed, "reference_runs": st.ref_runs,
            "distinct_states": st.states.iter().collect::<BTreeSet<_>>().len(), "distinct_observations": st.obs_outcomes.iter().collect::<BTreeSet<_>>().len(),
            "depth_bound": target, "depth_completed": st.depth_completed, "complete": st.complete, "counters": st.counters, "worker_wall_s_max": st.wall_s,
        }));
        errors.extend(st.machinery_errors.iter().cloned());
    }
    for (n, _) in expected_scenarios {
        if !merged.contains_key(n) {
            errors.push(format!("scenario {} missing from worker results", n));
        }
    }
    for (_, st) in merged {
        let c = st.complete;
        total.merge(st);
        total.complete &= c;
    }
    let mut ev = Evidence::new(&p.property, &p.tier, p.seed, &p.level);
    total.violations.extend(extra_violations);
    let (violations, mut known) = evidence::triage(&p.property, total.violations.clone());
    known.extend(total.known.iter().cloned());
    let mut replay_paths = Vec::new();
    for v in &violations {
        replay_paths.push(evidence::write_replay(v));
    }
    ev.coverage = json!({
        "states": states.len(), "transitions": total.transitions, "traces_validated_against_impl": total.validated,
        "evaluations": total.paths, "distinct_nontrivial": outcomes.len(),
        "rule": p.rule,
        "samples": total.samples.iter().take(6).collect::<Vec<_>>(),
        "scenarios": per_scenario, "observed_paths": total.observed, "reference_runs": total.ref_runs,
        "exhaustive_within_bounds": total.complete, "counters": total.counters,
        "known_findings": known.iter().map(|(id, v)| json!({"id": id, "path": v.path, "kind": v.kind})).collect::<Vec<_>>(),
        "machinery_errors": errors,
    });
    if let Some(x) = &extra_coverage {
        ev.coverage[if p.property == "C02" { "pinned_digests" } else { "additional_pass" }] = x.clone();
    }
    ev.assumptions = p.assumptions.clone();
    ev.violations = violations.len() as i64;
    ev.wall_s = t0.elapsed().as_secs_f64();
    ev.write();
    let mut seen = BTreeSet::new();
    for (id, v) in &known {
        if seen.insert(id.clone()) {
            println!("KNOWN-FINDING: property={} {} (e.g. {} via {:?})", p.property, id, v.kind, v.path);
        }
    }
    println!(
        "{} {}: paths={} transitions={} states={} observations={} distinct_observations={} ref_runs={} validated={} complete={} wall={:.1}s",
        p.property, p.tier, total.paths, total.transitions, states.len(), total.observed, outcomes.len(), total.ref_runs, total.validated, total.complete, ev.wall_s
    );
    for (k, v) in &total.counters {
        println!("  counter {} = {}", k, v);
    }
    if !violations.is_empty() {
        for (v, path) in violations.iter().zip(replay_paths.iter()).take(10) {
            println!("VIOLATION property={} replay={}", p.property, path);
            println!("  kind={} scenario={} start={} path={:?}", v.kind, v.scenario, v.start, v.path);
            println!("  {}", trunc(&v.detail, 1200));
        }
        return 1;
    }
    if !errors.is_empty() {
        for e in errors.iter().take(10) {
            eprintln!("MACHINERY-ERROR: {}", trunc(e, 1500));
        }
        return 3;
    }
    0
}

pub fn value_of<T: serde::Serialize>(t: &T) -> Value {
    serde_json::to_value(t).unwrap()
}
