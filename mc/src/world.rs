//! The driver: symbolic steps -> concrete JSON-RPC calls, and the protocol automaton of
//! DESIGN.md Appendix A (bookkeeping only: heights, the block under construction, commit
//! points). It never predicts an EVM result.
use crate::inst::{CallOutcome, Inst};
use crate::sign;
use crate::util::*;
use alloy::primitives::{keccak256, Address};
use serde::{Deserialize, Serialize};
use serde_json::{json, Value};
use std::collections::BTreeSet;

pub const W: u64 = brc20_prog::verif::MAX_REORG_HISTORY_SIZE;
pub const P_BLOCKS: u64 = brc20_prog::verif::MAX_FUTURE_TRANSACTION_BLOCKS;
pub const P_NONCES: u64 = brc20_prog::verif::MAX_FUTURE_TRANSACTION_NONCES;
pub const GAS_PER_BYTE: u64 = brc20_prog::verif::GAS_PER_BYTE;
pub const CONTROLLER: &str = "0xc54dd4581af2dbf18e4d90840226756e9d2b3cdb";
pub const DEAD: &str = "0x000000000000000000000000000000000000dead";
pub const DEFAULT_LEN: u64 = 100_000;

#[derive(Clone, Debug, PartialEq, Eq, Hash, Serialize, Deserialize)]
pub struct Call {
    pub method: String,
    pub params: Value,
}

pub fn pkscript(i: u8) -> String {
    if i >= 0x40 {
        // long scripts in pairs: 0x40/0x41, 0x42/0x43, ... share everything but their last byte
        const LENS: [usize; 4] = [35, 68, 105, 520];
        let fam = ((i - 0x40) / 2) as usize % LENS.len();
        let n = LENS[fam];
        let mut b: Vec<u8> = (0..n).map(|k| (k as u8).wrapping_mul(7).wrapping_add(fam as u8)).collect();
        b[0] = 0x51;
        b[n - 1] = (i - 0x40) % 2;
        return hex::encode(b);
    }
    format!("51{:02x}", 0xa0u8.wrapping_add(i))
}

pub fn pk_addr(i: u8) -> Address {
    let b = hex::decode(pkscript(i)).unwrap();
    Address::from_slice(&keccak256(b)[12..32])
}

pub fn addr_s(a: Address) -> String {
    format!("0x{}", hex::encode(a.as_slice()))
}

#[derive(Clone, Debug, PartialEq, Eq, Hash, Serialize, Deserialize)]
pub enum Tgt {
    /// contract created by pkscript `pk` at account nonce `nonce`
    Created { pk: u8, nonce: u64 },
    /// contract created by signer `s` at nonce
    CreatedBySigner { s: u8, nonce: u64 },
    Controller,
    Dead,
    Addr(String),
    /// contract creation (deploy through call / transact)
    Create,
}

impl Tgt {
    pub fn s() -> Tgt {
        Tgt::Created { pk: 0, nonce: 0 }
    }
    pub fn resolve(&self) -> Option<String> {
        match self {
            Tgt::Created { pk, nonce } => Some(addr_s(pk_addr(*pk).create(*nonce))),
            Tgt::CreatedBySigner { s, nonce } => Some(addr_s(sign::signer_addr(*s).create(*nonce))),
            Tgt::Controller => Some(CONTROLLER.to_string()),
            Tgt::Dead => Some(DEAD.to_string()),
            Tgt::Addr(a) => Some(a.clone()),
            Tgt::Create => None,
        }
    }
}

#[derive(Clone, Debug, PartialEq, Eq, Hash, Serialize, Deserialize)]
pub enum TxSpec {
    Deploy { pk: u8, code: Vec<u8>, len: u64 },
    /// a deployment inscribed under a given inscription id (the same id can then be deployed again on another branch)
    DeployAs { pk: u8, code: Vec<u8>, len: u64, insc: String },
    Call { pk: u8, tgt: Tgt, data: Vec<u8>, len: u64 },
    /// the same, addressed by the inscription id the target was deployed with
    CallByInsc { pk: u8, insc: String, data: Vec<u8>, len: u64 },
    Deposit { pk: u8, ticker: String, amount: String },
    Withdraw { pk: u8, ticker: String, amount: String },
    Transact { signer: u8, nonce: u64, tgt: Tgt, data: Vec<u8>, len: u64 },
    /// raw bytes as given (garbage, other chain id, ...)
    TransactRaw { raw: Vec<u8>, len: u64 },
}

#[derive(Clone, Debug, PartialEq, Eq, Hash, Serialize, Deserialize)]
pub enum RTarget {
    /// current height minus k
    Back(u64),
    Abs(u64),
    /// current height plus k
    Fwd(u64),
}

/// A deliberately out-of-protocol or malformed call.
#[derive(Clone, Debug, PartialEq, Eq, Hash, Serialize, Deserialize)]
pub enum BadSpec {
    /// a valid transaction, but with tx_idx = count + delta (delta != 0), or an absolute value
    TxIdx { tx: TxSpec, idx: IdxSel },
    TxTimestamp { tx: TxSpec },
    TxHash { tx: TxSpec },
    /// the block hash of an existing block
    TxExistingHash { tx: TxSpec, height: u64 },
    FinCount { idx: IdxSel },
    FinTimestamp,
    FinHash,
    FinExistingHash { height: u64 },
    CommitWhileOpen,
    ReorgWhileOpen,
    MineWhileOpen,
    BothEncodings { tx: TxSpec },
    NeitherEncoding { tx: TxSpec },
    InitMismatch,
    InitMissingParent,
    /// no status prescribed
    BadPkscript,
    BadRawTx,
    /// literal call
    Literal { method: String, params: Value, must_reject: bool },
}

#[derive(Clone, Debug, PartialEq, Eq, Hash, Serialize, Deserialize)]
pub enum IdxSel {
    Minus1,
    Plus1,
    Max,
}

#[derive(Clone, Debug, PartialEq, Eq, Hash, Serialize, Deserialize)]
pub enum Step {
    Init,
    Tx(TxSpec),
    Fin,
    Mine(u64),
    Commit,
    Clear,
    Restart,
    Reorg(RTarget),
    Bad(BadSpec),
    /// driver only: parameters of the next block (timestamp; zero hash = server-generated)
    Params { ts: u64, zero_hash: bool },
    /// a read request (never changes the automaton); `boundary_only`: skipped while a block is open
    /// (simulations wait up to 5 s for the block to be finalised)
    Read { method: String, params: Value, boundary_only: bool },
}

#[derive(Clone, Debug, PartialEq, Eq)]
pub enum Expect {
    MustReject,
    MustAccept,
    Any,
}

#[derive(Clone, Debug, Serialize, Deserialize, PartialEq, Eq, Hash)]
pub struct Rec {
    pub call: Call,
    /// canonical text of the response the subject gave
    pub outcome: String,
}

#[derive(Clone, Debug, Serialize, Deserialize, PartialEq, Eq, Hash)]
pub struct BlockRec {
    pub height: u64,
    pub hash: String,
    pub calls: Vec<Rec>,
    pub close: Option<Rec>,
}

#[derive(Clone, Debug)]
pub struct Open {
    pub hash: String,
    pub ts: u64,
    pub count: u64,
}

#[derive(Clone, Debug, Default, PartialEq, Eq, Hash)]
pub struct Universe {
    pub h32: BTreeSet<String>,
    pub addrs: BTreeSet<String>,
    pub inscs: BTreeSet<String>,
    pub max_height: u64,
}

impl Universe {
    /// the actors every scenario may use, so that observations do not depend on who acted
    pub fn standard() -> Universe {
        let mut u = Universe::default();
        for i in 0..3u8 {
            u.addrs.insert(addr_s(pk_addr(i)));
            u.addrs.insert(addr_s(sign::signer_addr(i)).to_lowercase());
        }
        u.addrs.insert(CONTROLLER.to_string());
        u.addrs.insert(DEAD.to_string());
        u.addrs.insert(Tgt::s().resolve().unwrap());
        // contracts that S creates (S.create): they appear in no receipt field, only in traces and lookups
        let s_addr: Address = Tgt::s().resolve().unwrap().parse().unwrap();
        for n in 1..=3u64 {
            u.addrs.insert(addr_s(s_addr.create(n)));
        }
        u
    }
    pub fn scan(&mut self, v: &Value) {
        match v {
            Value::String(s) => {
                if s.len() == 66 && s.starts_with("0x") && s.bytes().skip(2).all(|c| c.is_ascii_hexdigit()) {
                    self.h32.insert(s.to_lowercase());
                } else if s.len() == 42 && s.starts_with("0x") && s.bytes().skip(2).all(|c| c.is_ascii_hexdigit()) {
                    self.addrs.insert(s.to_lowercase());
                }
            }
            Value::Array(a) => a.iter().for_each(|x| self.scan(x)),
            Value::Object(m) => {
                for (k, x) in m {
                    if k == "logsBloom" {
                        continue;
                    }
                    if (k == "inscription_id" || k == "contract_inscription_id" || k == "inscriptionId") && x.is_string() {
                        self.inscs.insert(x.as_str().unwrap().to_string());
                    }
                    self.scan(x);
                }
            }
            _ => {}
        }
    }
}

#[derive(Clone, Debug)]
pub struct StepOut {
    pub step: Step,
    pub call: Call,
    pub outcome: CallOutcome,
    pub expect: Expect,
    /// the call was a growth call issued according to the protocol
    pub growth: bool,
}

#[derive(Clone)]
pub struct World {
    pub recs: Vec<BlockRec>,
    pub h: Option<u64>,
    pub open: Option<Open>,
    pub snapshot: (Vec<BlockRec>, Option<u64>),
    pub committed: Option<u64>,
    pub max_ever: Option<u64>,
    pub epoch: u32,
    pub seq: u32,
    pub uni: Universe,
    /// next block parameters chosen by the property (timestamp, explicit hash or zero)
    pub next_ts: Option<u64>,
    pub next_hash: Option<String>,
    /// use the zero hash (server-generated) for built blocks
    pub zero_hash: bool,
    pub trace: Vec<(Call, String)>,
    pub keep_trace: bool,
    /// an injected out-of-protocol call was accepted: the automaton no longer describes the instance
    pub desync: bool,
}

/// Inscription ids as they look in production (`<64 hex digits of a transaction id>i<index>`); consecutive
/// transactions 2k, 2k+1 share the 64-digit prefix and differ in the index only.
pub fn insc_id(seq: u32, epoch: u32) -> String {
    format!("{:0>64}i{}", format!("1d{:06x}e{:04x}", seq / 2, epoch), seq % 2)
}

/// the id S is deployed with in `start_with_s` (the first transaction of a history)
pub fn s_insc() -> String {
    insc_id(1, 0)
}

pub fn gen_hash(height: u64) -> String {
    let mut b = [0u8; 32];
    b[24..].copy_from_slice(&(height + 1).to_be_bytes());
    hx(&b)
}

impl Default for World {
    fn default() -> Self {
        Self::new()
    }
}

impl World {
    pub fn new() -> World {
        World {
            recs: Vec::new(),
            h: None,
            open: None,
            snapshot: (Vec::new(), None),
            committed: None,
            max_ever: None,
            epoch: 0,
            seq: 0,
            uni: Universe::standard(),
            next_ts: None,
            next_hash: None,
            zero_hash: false,
            trace: Vec::new(),
            keep_trace: false,
            desync: false,
        }
    }

    pub fn next_height(&self) -> u64 {
        self.h.map(|x| x + 1).unwrap_or(0)
    }

    pub fn default_ts(height: u64) -> u64 {
        1_600_000_000 + height * 600
    }

    fn built_hash(&self, height: u64) -> String {
        if self.zero_hash {
            return zero32();
        }
        format!("0x{:0>64}", format!("b{:03x}{:08x}", self.epoch & 0xfff, height))
    }

    /// (timestamp, hash as sent, hash as stored) of the block under construction / next block
    pub fn block_params(&self) -> (u64, String, String) {
        let nh = self.next_height();
        if let Some(o) = &self.open {
            let sent = o.hash.clone();
            let stored = if sent == zero32() { gen_hash(nh) } else { sent.clone() };
            return (o.ts, sent, stored);
        }
        let ts = self.next_ts.unwrap_or_else(|| World::default_ts(nh));
        let sent = self.next_hash.clone().unwrap_or_else(|| self.built_hash(nh));
        let stored = if sent == zero32() { gen_hash(nh) } else { sent.clone() };
        (ts, sent, stored)
    }

    pub fn count(&self) -> u64 {
        self.open.as_ref().map(|o| o.count).unwrap_or(0)
    }

    fn new_insc(&mut self) -> (String, String) {
        self.seq += 1;
        (insc_id(self.seq, self.epoch), format!("0x{:0>64}", format!("77{:06x}", self.seq)))
    }

    /// The JSON-RPC call for a transaction at index `idx` of the block with the given params.
    pub fn tx_call(&mut self, tx: &TxSpec, idx: u64, ts: u64, hash: &str) -> Call {
        let (insc, txid) = self.new_insc();
        tx_call_with(tx, idx, ts, hash, &insc, &txid)
    }

    fn record_growth(&mut self, call: &Call, outcome: &CallOutcome) {
        let nh = self.next_height();
        let (_, _, stored) = self.block_params();
        if self.recs.last().map(|r| r.close.is_some() || r.height != nh).unwrap_or(true) {
            self.recs.push(BlockRec { height: nh, hash: stored, calls: Vec::new(), close: None });
        }
        let rec = Rec { call: call.clone(), outcome: canon(&outcome.to_value()) };
        self.recs.last_mut().unwrap().calls.push(rec);
    }

    fn close_block(&mut self, call: &Call, outcome: &CallOutcome, hash: String) {
        let nh = self.next_height();
        if self.recs.last().map(|r| r.close.is_some() || r.height != nh).unwrap_or(true) {
            self.recs.push(BlockRec { height: nh, hash: hash.clone(), calls: Vec::new(), close: None });
        }
        let r = self.recs.last_mut().unwrap();
        r.hash = hash;
        r.close = Some(Rec { call: call.clone(), outcome: canon(&outcome.to_value()) });
        self.h = Some(nh);
        self.open = None;
        self.next_ts = None;
        self.next_hash = None;
        self.max_ever = Some(self.max_ever.map(|m| m.max(nh)).unwrap_or(nh));
        self.uni.max_height = self.uni.max_height.max(nh);
    }

    fn note(&mut self, call: &Call, outcome: &CallOutcome) {
        self.uni.scan(&call.params);
        if let CallOutcome::Resp(v) = outcome {
            self.uni.scan(v);
        }
        if self.keep_trace {
            self.trace.push((call.clone(), canon(&outcome.to_value())));
        }
    }

    pub fn hash_of_height(&self, height: u64) -> Option<String> {
        self.recs.iter().find(|r| r.height == height && r.close.is_some()).map(|r| r.hash.clone())
    }

    /// Is a reorg to `n` required to be accepted / refused by the statement of C01?
    pub fn reorg_expect(&self, n: u64) -> Expect {
        if self.count() != 0 {
            return Expect::MustReject;
        }
        let Some(h) = self.h else {
            // no block at all: the code reports height 0 for an empty database; nothing is prescribed
            return Expect::Any;
        };
        if n > h {
            return Expect::MustReject;
        }
        let max = self.max_ever.unwrap_or(h);
        if max - n > W {
            return Expect::MustReject;
        }
        Expect::MustAccept
    }

    pub fn resolve_reorg(&self, t: &RTarget) -> Option<u64> {
        let h = self.h.unwrap_or(0);
        match t {
            RTarget::Back(k) => h.checked_sub(*k),
            RTarget::Abs(n) => Some(*n),
            RTarget::Fwd(k) => Some(h + k),
        }
    }

    /// Execute one step on `inst` and update the automaton.
    pub fn exec(&mut self, inst: &mut Inst, step: &Step) -> StepOut {
        match step {
            Step::Init => {
                let nh = self.next_height();
                let (ts, sent, stored) = self.block_params();
                let call = Call { method: "brc20_initialise".into(), params: json!({"genesis_hash": sent, "genesis_timestamp": ts, "genesis_height": nh}) };
                let out = inst.call(&call.method, call.params.clone());
                self.note(&call, &out);
                // the Bitcoin-RPC failure after genesis creation is the statement's exclusion
                let env_err = out.err_msg().map(|m| m.starts_with("Bitcoin RPC status check failed")).unwrap_or(false);
                // "can be called before or after brc20_mine": the genesis block is the next block
                let growth = self.count() == 0;
                if growth && !(out.is_ok() || env_err) {
                    self.record_growth(&call, &out);
                }
                if growth && (out.is_ok() || env_err) {
                    self.record_growth(&call, &out);
                    // initialise adds the deploy tx and finalises: close the block with no separate call
                    let r = self.recs.last_mut().unwrap();
                    r.hash = stored.clone();
                    let rec = r.calls.pop().unwrap();
                    r.close = Some(rec);
                    self.h = Some(nh);
                    self.open = None;
                    self.max_ever = Some(self.max_ever.map(|m| m.max(nh)).unwrap_or(nh));
                    self.uni.max_height = self.uni.max_height.max(nh);
                }
                StepOut { step: step.clone(), call, outcome: out, expect: Expect::Any, growth }
            }
            Step::Tx(tx) => {
                let (ts, sent, _stored) = self.block_params();
                let idx = self.count();
                let call = self.tx_call(tx, idx, ts, &sent);
                let out = inst.call(&call.method, call.params.clone());
                self.note(&call, &out);
                self.record_growth(&call, &out);
                if out.is_ok() {
                    let n = receipts_of(&out).len() as u64;
                    if n > 0 {
                        match &mut self.open {
                            Some(o) => o.count += n,
                            None => self.open = Some(Open { hash: sent, ts, count: n }),
                        }
                    }
                }
                StepOut { step: step.clone(), call, outcome: out, expect: Expect::Any, growth: true }
            }
            Step::Fin => {
                let (ts, sent, stored) = self.block_params();
                let call = Call { method: "brc20_finaliseBlock".into(), params: json!({"timestamp": ts, "hash": sent, "block_tx_count": self.count()}) };
                let out = inst.call(&call.method, call.params.clone());
                self.note(&call, &out);
                if out.is_ok() {
                    self.close_block(&call, &out, stored);
                } else {
                    self.record_growth(&call, &out);
                }
                StepOut { step: step.clone(), call, outcome: out, expect: Expect::Any, growth: true }
            }
            Step::Mine(n) => {
                let nh = self.next_height();
                let ts = self.next_ts.unwrap_or_else(|| World::default_ts(nh));
                let call = Call { method: "brc20_mine".into(), params: json!([n, ts]) };
                let out = inst.call(&call.method, call.params.clone());
                self.note(&call, &out);
                let valid = self.count() == 0;
                if out.is_ok() {
                    // recorded as n single-block mines so that a rollback can cut in between
                    let one = Call { method: "brc20_mine".into(), params: json!([1, ts]) };
                    for _ in 0..*n {
                        let hh = self.next_height();
                        self.close_block(&one, &out, gen_hash(hh));
                    }
                } else if valid {
                    self.record_growth(&call, &out);
                }
                StepOut { step: step.clone(), call, outcome: out, expect: if valid { Expect::Any } else { Expect::MustReject }, growth: valid }
            }
            Step::Commit => {
                let call = Call { method: "brc20_commitToDatabase".into(), params: json!([]) };
                let expect = if self.count() != 0 { Expect::MustReject } else { Expect::Any };
                let out = inst.call(&call.method, call.params.clone());
                self.note(&call, &out);
                if out.is_ok() {
                    self.committed = self.h;
                    self.snapshot = (self.recs.clone(), self.h);
                }
                StepOut { step: step.clone(), call, outcome: out, expect, growth: false }
            }
            Step::Clear => {
                let call = Call { method: "brc20_clearCaches".into(), params: json!([]) };
                let out = inst.call(&call.method, call.params.clone());
                self.note(&call, &out);
                if out.is_ok() {
                    self.rollback_to_snapshot();
                }
                StepOut { step: step.clone(), call, outcome: out, expect: Expect::MustAccept, growth: false }
            }
            Step::Restart => {
                let call = Call { method: "<restart>".into(), params: json!([]) };
                inst.reopen();
                self.rollback_to_snapshot();
                let out = CallOutcome::Resp(json!({"result": null}));
                if self.keep_trace {
                    self.trace.push((call.clone(), "restart".into()));
                }
                StepOut { step: step.clone(), call, outcome: out, expect: Expect::MustAccept, growth: false }
            }
            Step::Reorg(t) => {
                let n = self.resolve_reorg(t);
                let Some(n) = n else {
                    // target below zero: not expressible
                    let call = Call { method: "<skip>".into(), params: json!([]) };
                    return StepOut { step: step.clone(), call, outcome: CallOutcome::Resp(json!({"error": {"message": "skipped"}})), expect: Expect::Any, growth: false };
                };
                let expect = self.reorg_expect(n);
                let call = Call { method: "brc20_reorg".into(), params: json!([n]) };
                let out = inst.call(&call.method, call.params.clone());
                self.note(&call, &out);
                if out.is_ok() && self.count() == 0 {
                    if let Some(h) = self.h {
                        if n < h {
                            self.recs.retain(|r| r.height <= n);
                            self.h = Some(n);
                            self.open = None;
                            self.committed = Some(n);
                            self.snapshot = (self.recs.clone(), self.h);
                            self.epoch += 1;
                            self.next_ts = None;
                            self.next_hash = None;
                        } else if n == h {
                            // a reorg to the current height runs the same pass (it is what cleans up after
                            // a reorg that died half-way) and, like every reorg, commits. What was submitted
                            // for the block above it (a signed transaction parked without opening the block)
                            // belongs to "the blocks above N" and goes with them
                            self.recs.retain(|r| r.height <= n);
                            self.committed = Some(n);
                            self.snapshot = (self.recs.clone(), self.h);
                        }
                    }
                }
                StepOut { step: step.clone(), call, outcome: out, expect, growth: false }
            }
            Step::Bad(b) => {
                let (call, expect) = self.bad_call(b);
                if call.method == "<skip>" {
                    return StepOut { step: step.clone(), call, outcome: CallOutcome::Resp(json!({"error": {"message": "skipped"}})), expect: Expect::Any, growth: false };
                }
                let out = inst.call(&call.method, call.params.clone());
                self.note(&call, &out);
                let env_err = out.err_msg().map(|m| m.starts_with("Bitcoin RPC status check failed")).unwrap_or(false);
                if out.is_ok() || env_err {
                    // an out-of-protocol call that was accepted is not modelled by the automaton
                    self.desync = true;
                }
                StepOut { step: step.clone(), call, outcome: out, expect, growth: false }
            }
            Step::Params { ts, zero_hash } => {
                if self.open.is_none() {
                    self.next_ts = Some(*ts);
                    self.next_hash = if *zero_hash { Some(zero32()) } else { None };
                }
                let call = Call { method: "<skip>".into(), params: json!([]) };
                StepOut { step: step.clone(), call, outcome: CallOutcome::Resp(json!({"result": null})), expect: Expect::Any, growth: false }
            }
            Step::Read { method, params, boundary_only } => {
                if *boundary_only && self.count() != 0 {
                    let call = Call { method: "<skip>".into(), params: json!([]) };
                    return StepOut { step: step.clone(), call, outcome: CallOutcome::Resp(json!({"error": {"message": "skipped"}})), expect: Expect::Any, growth: false };
                }
                let call = Call { method: method.clone(), params: params.clone() };
                let out = inst.call(&call.method, call.params.clone());
                StepOut { step: step.clone(), call, outcome: out, expect: Expect::Any, growth: false }
            }
        }
    }

    fn rollback_to_snapshot(&mut self) {
        self.recs = self.snapshot.0.clone();
        self.h = self.snapshot.1;
        self.open = None;
        self.epoch += 1;
        self.next_ts = None;
        self.next_hash = None;
    }

    fn bad_call(&mut self, b: &BadSpec) -> (Call, Expect) {
        #[allow(non_snake_case)]
        let SKIP: (Call, Expect) = (Call { method: "<skip>".into(), params: json!([]) }, Expect::Any);
        let (ts, sent, _stored) = self.block_params();
        let count = self.count();
        let sel = |s: &IdxSel| -> Option<u64> {
            match s {
                IdxSel::Minus1 => count.checked_sub(1),
                IdxSel::Plus1 => Some(count + 1),
                IdxSel::Max => Some(u64::MAX),
            }
        };
        let other_hash = format!("0x{:0>64}", format!("0dd{:08x}", self.next_height()));
        match b {
            BadSpec::TxIdx { tx, idx } => match sel(idx) {
                Some(i) => (self.tx_call(tx, i, ts, &sent), Expect::MustReject),
                None => (Call { method: "<skip>".into(), params: json!([]) }, Expect::Any),
            },
            // without a block under construction these are ordinary valid calls, not violations
            BadSpec::TxTimestamp { tx } => {
                if self.open.is_none() {
                    return SKIP.clone();
                }
                (self.tx_call(tx, count, ts + 1, &sent), Expect::MustReject)
            }
            BadSpec::TxHash { tx } => {
                if self.open.is_none() {
                    return SKIP.clone();
                }
                (self.tx_call(tx, count, ts, &other_hash), Expect::MustReject)
            }
            BadSpec::TxExistingHash { tx, height } => match self.hash_of_height(*height) {
                Some(hh) if self.open.is_none() => (self.tx_call(tx, count, ts, &hh), Expect::MustReject),
                _ => (Call { method: "<skip>".into(), params: json!([]) }, Expect::Any),
            },
            BadSpec::FinCount { idx } => match sel(idx) {
                Some(i) => (Call { method: "brc20_finaliseBlock".into(), params: json!({"timestamp": ts, "hash": sent, "block_tx_count": i}) }, Expect::MustReject),
                None => (Call { method: "<skip>".into(), params: json!([]) }, Expect::Any),
            },
            BadSpec::FinTimestamp => {
                if self.open.is_none() {
                    return SKIP.clone();
                }
                let e = Expect::MustReject;
                (Call { method: "brc20_finaliseBlock".into(), params: json!({"timestamp": ts + 1, "hash": sent, "block_tx_count": count}) }, e)
            }
            BadSpec::FinHash => {
                if self.open.is_none() {
                    return SKIP.clone();
                }
                let e = Expect::MustReject;
                (Call { method: "brc20_finaliseBlock".into(), params: json!({"timestamp": ts, "hash": other_hash, "block_tx_count": count}) }, e)
            }
            BadSpec::FinExistingHash { height } => match self.hash_of_height(*height) {
                Some(hh) if self.open.is_none() => (Call { method: "brc20_finaliseBlock".into(), params: json!({"timestamp": ts, "hash": hh, "block_tx_count": count}) }, Expect::MustReject),
                _ => (Call { method: "<skip>".into(), params: json!([]) }, Expect::Any),
            },
            BadSpec::CommitWhileOpen if count == 0 => SKIP.clone(),
            BadSpec::ReorgWhileOpen if count == 0 => SKIP.clone(),
            BadSpec::MineWhileOpen if count == 0 => SKIP.clone(),
            BadSpec::CommitWhileOpen => (Call { method: "brc20_commitToDatabase".into(), params: json!([]) }, Expect::MustReject),
            BadSpec::ReorgWhileOpen => (Call { method: "brc20_reorg".into(), params: json!([self.h.unwrap_or(0).saturating_sub(1)]) }, Expect::MustReject),
            BadSpec::MineWhileOpen => (Call { method: "brc20_mine".into(), params: json!([1, ts]) }, Expect::MustReject),
            BadSpec::BothEncodings { tx } => {
                let mut c = self.tx_call(tx, count, ts, &sent);
                add_other_encoding(&mut c);
                (c, Expect::MustReject)
            }
            BadSpec::NeitherEncoding { tx } => {
                let mut c = self.tx_call(tx, count, ts, &sent);
                strip_encodings(&mut c);
                (c, Expect::MustReject)
            }
            BadSpec::InitMismatch => {
                if self.hash_of_height(0).is_none() {
                    return SKIP.clone();
                }
                let e = Expect::MustReject;
                (Call { method: "brc20_initialise".into(), params: json!({"genesis_hash": other_hash, "genesis_timestamp": 1, "genesis_height": 0}) }, e)
            }
            BadSpec::InitMissingParent => {
                let g = self.next_height() + 2;
                (Call { method: "brc20_initialise".into(), params: json!({"genesis_hash": zero32(), "genesis_timestamp": 1, "genesis_height": g}) }, Expect::MustReject)
            }
            BadSpec::BadPkscript => {
                let mut c = self.tx_call(&TxSpec::Call { pk: 0, tgt: Tgt::s(), data: vec![6, 0], len: DEFAULT_LEN }, count, ts, &sent);
                c.params["from_pkscript"] = json!("zz");
                (c, Expect::Any)
            }
            BadSpec::BadRawTx => (self.tx_call(&TxSpec::TransactRaw { raw: vec![0xc0, 0x01, 0x02], len: DEFAULT_LEN }, count, ts, &sent), Expect::Any),
            BadSpec::Literal { method, params, must_reject } => (Call { method: method.clone(), params: params.clone() }, if *must_reject { Expect::MustReject } else { Expect::Any }),
        }
    }

    /// The growth calls of the normal form, in order.
    pub fn nf_calls(&self) -> Vec<&Rec> {
        let mut v = Vec::new();
        for r in &self.recs {
            v.extend(r.calls.iter());
            if let Some(c) = &r.close {
                v.push(c);
            }
        }
        v
    }
}

pub fn receipts_of(out: &CallOutcome) -> Vec<Value> {
    match out.result() {
        Some(Value::Array(a)) => a.clone(),
        Some(Value::Object(o)) => vec![Value::Object(o.clone())],
        _ => Vec::new(),
    }
}

fn add_other_encoding(c: &mut Call) {
    let p = c.params.as_object_mut().unwrap();
    if c.method == "brc20_transact" {
        p.insert("base64_raw_tx_data".into(), json!("AAE"));
    } else {
        p.insert("base64_data".into(), json!("AAE"));
    }
}

fn strip_encodings(c: &mut Call) {
    let p = c.params.as_object_mut().unwrap();
    for k in ["data", "base64_data", "raw_tx_data", "base64_raw_tx_data"] {
        p.remove(k);
    }
}

pub fn tx_call_with(tx: &TxSpec, idx: u64, ts: u64, hash: &str, insc: &str, txid: &str) -> Call {
    match tx {
        TxSpec::Deploy { pk, code, len } => Call {
            method: "brc20_deploy".into(),
            params: json!({"from_pkscript": pkscript(*pk), "data": hx(code), "timestamp": ts, "hash": hash, "tx_idx": idx, "inscription_id": insc, "inscription_byte_len": len, "op_return_tx_id": txid}),
        },
        TxSpec::DeployAs { pk, code, len, insc: fixed } => Call {
            method: "brc20_deploy".into(),
            params: json!({"from_pkscript": pkscript(*pk), "data": hx(code), "timestamp": ts, "hash": hash, "tx_idx": idx, "inscription_id": fixed, "inscription_byte_len": len, "op_return_tx_id": txid}),
        },
        TxSpec::Call { pk, tgt, data, len } => Call {
            method: "brc20_call".into(),
            params: json!({"from_pkscript": pkscript(*pk), "contract_address": tgt.resolve(), "data": hx(data), "timestamp": ts, "hash": hash, "tx_idx": idx, "inscription_id": insc, "inscription_byte_len": len, "op_return_tx_id": txid}),
        },
        TxSpec::CallByInsc { pk, insc: target, data, len } => Call {
            method: "brc20_call".into(),
            params: json!({"from_pkscript": pkscript(*pk), "contract_inscription_id": target, "data": hx(data), "timestamp": ts, "hash": hash, "tx_idx": idx, "inscription_id": insc, "inscription_byte_len": len, "op_return_tx_id": txid}),
        },
        TxSpec::Deposit { pk, ticker, amount } => Call {
            method: "brc20_deposit".into(),
            params: json!({"to_pkscript": pkscript(*pk), "ticker": ticker, "amount": amount, "timestamp": ts, "hash": hash, "tx_idx": idx, "inscription_id": insc}),
        },
        TxSpec::Withdraw { pk, ticker, amount } => Call {
            method: "brc20_withdraw".into(),
            params: json!({"from_pkscript": pkscript(*pk), "ticker": ticker, "amount": amount, "timestamp": ts, "hash": hash, "tx_idx": idx, "inscription_id": insc}),
        },
        TxSpec::Transact { signer, nonce, tgt, data, len } => {
            let to = tgt.resolve().map(|a| a.parse::<Address>().unwrap());
            let raw = sign::raw_tx(*signer, crate::inst::chain_id(), *nonce, to, data);
            Call {
                method: "brc20_transact".into(),
                params: json!({"raw_tx_data": hx(&raw), "timestamp": ts, "hash": hash, "tx_idx": idx, "inscription_id": insc, "inscription_byte_len": len, "op_return_tx_id": txid}),
            }
        }
        TxSpec::TransactRaw { raw, len } => Call {
            method: "brc20_transact".into(),
            params: json!({"raw_tx_data": hx(raw), "timestamp": ts, "hash": hash, "tx_idx": idx, "inscription_id": insc, "inscription_byte_len": len, "op_return_tx_id": txid}),
        },
    }
}

/// Macro: one block containing the given transactions.
pub fn block(txs: Vec<TxSpec>) -> Vec<Step> {
    let mut v: Vec<Step> = txs.into_iter().map(Step::Tx).collect();
    v.push(Step::Fin);
    v
}
