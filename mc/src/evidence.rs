//! Evidence files, replay files and the known-findings file.
use crate::explore::Violation;
use serde_json::{json, Value};
use std::path::PathBuf;

pub fn verif_root() -> PathBuf {
    std::env::var("VERIF_ROOT").map(PathBuf::from).unwrap_or_else(|_| PathBuf::from("/verif"))
}

pub struct Evidence {
    pub property_id: String,
    pub tier: String,
    pub seed: u64,
    pub level: String,
    pub coverage: Value,
    pub assumptions: Vec<String>,
    pub wall_s: f64,
    pub violations: i64,
}

impl Evidence {
    pub fn new(property: &str, tier: &str, seed: u64, level: &str) -> Evidence {
        Evidence { property_id: property.into(), tier: tier.into(), seed, level: level.into(), coverage: json!({}), assumptions: vec![], wall_s: 0.0, violations: 0 }
    }
    pub fn write(&self) {
        let dir = verif_root().join("evidence");
        let _ = std::fs::create_dir_all(&dir);
        let v = json!({
            "property_id": self.property_id, "tier": self.tier, "seed": self.seed, "level": self.level,
            "coverage": self.coverage, "assumptions": self.assumptions, "wall_s": self.wall_s, "violations": self.violations,
        });
        let path = dir.join(format!("{}.json", self.property_id));
        std::fs::write(&path, serde_json::to_string_pretty(&v).unwrap()).expect("write evidence");
    }
}

pub fn write_replay(v: &Violation) -> String {
    let dir = verif_root().join("replays").join(&v.property);
    let _ = std::fs::create_dir_all(&dir);
    let path = dir.join(format!("{}.json", v.key()));
    std::fs::write(&path, serde_json::to_string_pretty(v).unwrap()).expect("write replay");
    path.to_string_lossy().to_string()
}

/// One entry of /verif/known_findings.json
#[derive(serde::Deserialize, Clone, Debug)]
pub struct Known {
    pub status: String, // "known" | "fixed"
    pub property: String,
    pub id: String,
    /// matcher: violation kind must equal this
    pub kind: String,
    /// matcher: every listed substring must occur in the violation detail
    #[serde(default)]
    pub detail_contains: Vec<String>,
    #[serde(default)]
    pub what: String,
    /// matcher: if given, the violation's scenario must equal this
    #[serde(default)]
    pub scenario: Option<String>,
}

thread_local! {
    static KNOWN_CACHE: std::cell::RefCell<Option<Vec<Known>>> = const { std::cell::RefCell::new(None) };
}

pub fn load_known() -> Vec<Known> {
    if let Some(k) = KNOWN_CACHE.with(|c| c.borrow().clone()) {
        return k;
    }
    let k = load_known_file();
    KNOWN_CACHE.with(|c| *c.borrow_mut() = Some(k.clone()));
    k
}

fn load_known_file() -> Vec<Known> {
    let p = verif_root().join("known_findings.json");
    match std::fs::read_to_string(&p) {
        Ok(s) => serde_json::from_str::<Vec<Known>>(&s).expect("known_findings.json"),
        Err(_) => Vec::new(),
    }
}

/// Split violations into new ones and those matched by a listed (status = known) finding.
/// `fixed` entries suppress nothing.
pub fn triage(property: &str, vs: Vec<Violation>) -> (Vec<Violation>, Vec<(String, Violation)>) {
    let known: Vec<Known> = load_known().into_iter().filter(|k| k.property == property && k.status == "known").collect();
    let mut new = Vec::new();
    let mut matched = Vec::new();
    let mut seen = std::collections::BTreeSet::new();
    for v in vs {
        if !seen.insert(v.key()) {
            continue;
        }
        match known.iter().find(|k| k.kind == v.kind && k.scenario.as_ref().map(|s| *s == v.scenario).unwrap_or(true) && k.detail_contains.iter().all(|s| v.detail.contains(s))) {
            Some(k) => matched.push((format!("{}: {}", k.id, k.what), v)),
            None => new.push(v),
        }
    }
    (new, matched)
}
