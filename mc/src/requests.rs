//! A valid default request (or several variants) for every registered method, and the engine
//! state classes in which requests are issued. Shared by the lock, wire and robustness engines.
use crate::props::common::*;
use crate::util::*;
use crate::world::*;
use serde_json::{json, Value};

#[derive(Clone, Debug)]
pub struct Req {
    pub method: String,
    pub label: String,
    pub params: Value,
}

fn r(method: &str, label: &str, params: Value) -> Req {
    Req { method: method.to_string(), label: label.to_string(), params }
}

/// Context a request is built for: next block parameters of the instance it is sent to.
pub struct Ctx {
    pub ts: u64,
    pub hash: String,
    pub idx: u64,
    pub height: u64,
    pub known_block_hash: String,
    pub known_tx: String,
}

impl Ctx {
    pub fn of(world: &World) -> Ctx {
        let (ts, sent, _) = world.block_params();
        let h = world.h.unwrap_or(0);
        let known_block_hash = world.hash_of_height(h).unwrap_or_else(zero32);
        let known_tx = world.uni.h32.iter().next().cloned().unwrap_or_else(|| h32(0x12));
        Ctx { ts, hash: sent, idx: world.count(), height: h, known_block_hash, known_tx }
    }
}

pub fn all_requests(c: &Ctx) -> Vec<Req> {
    let s = Tgt::s().resolve().unwrap();
    let z = zero32();
    let pk = pkscript(0);
    let call = json!({"from": addr_s(pk_addr(0)), "to": s, "data": hx(&crate::asm::s_set(0, 9, 1, [1, 0, 0, 0]))});
    let get = json!({"from": addr_s(pk_addr(0)), "to": s, "data": "0x0600"});
    let raw0 = hx(&crate::sign::raw_tx(0, crate::inst::chain_id(), 0, Some(s.parse().unwrap()), &[6, 0]));
    let raw1 = hx(&crate::sign::raw_tx(0, crate::inst::chain_id(), 1, Some(s.parse().unwrap()), &[6, 0]));
    let b = format!("{}", c.height);
    vec![
        // ---- indexer methods ----
        r("brc20_mine", "1", json!([1, c.ts])),
        r("brc20_mine", "0", json!([0, c.ts])),
        r("brc20_deploy", "S", json!({"from_pkscript": pk, "data": hx(&crate::asm::s_initcode()), "timestamp": c.ts, "hash": c.hash, "tx_idx": c.idx, "inscription_id": "req-deploy", "inscription_byte_len": DEFAULT_LEN, "op_return_tx_id": z})),
        r("brc20_call", "set", json!({"from_pkscript": pk, "contract_address": s, "data": hx(&crate::asm::s_set(0, 1, 1, [1, 0, 0, 0])), "timestamp": c.ts, "hash": c.hash, "tx_idx": c.idx, "inscription_id": "req-call", "inscription_byte_len": DEFAULT_LEN, "op_return_tx_id": z})),
        r("brc20_call", "by-inscription", json!({"from_pkscript": pk, "contract_inscription_id": crate::world::s_insc(), "data": "0x0600", "timestamp": c.ts, "hash": c.hash, "tx_idx": c.idx, "inscription_id": "req-call2", "inscription_byte_len": DEFAULT_LEN, "op_return_tx_id": z})),
        r("brc20_transact", "nonce0", json!({"raw_tx_data": raw0, "timestamp": c.ts, "hash": c.hash, "tx_idx": c.idx, "inscription_id": "req-t0", "inscription_byte_len": DEFAULT_LEN, "op_return_tx_id": z})),
        r("brc20_transact", "nonce1", json!({"raw_tx_data": raw1, "timestamp": c.ts, "hash": c.hash, "tx_idx": c.idx, "inscription_id": "req-t1", "inscription_byte_len": DEFAULT_LEN, "op_return_tx_id": z})),
        r("brc20_deposit", "ordi", json!({"to_pkscript": pk, "ticker": "ordi", "amount": "0x5", "timestamp": c.ts, "hash": c.hash, "tx_idx": c.idx, "inscription_id": "req-dep"})),
        r("brc20_withdraw", "ordi", json!({"from_pkscript": pk, "ticker": "ordi", "amount": "0x1", "timestamp": c.ts, "hash": c.hash, "tx_idx": c.idx, "inscription_id": "req-wd"})),
        r("brc20_initialise", "next", json!({"genesis_hash": z, "genesis_timestamp": c.ts, "genesis_height": 0})),
        r("brc20_finaliseBlock", "count", json!({"timestamp": c.ts, "hash": c.hash, "block_tx_count": c.idx})),
        r("brc20_reorg", "h-1", json!([c.height.saturating_sub(1)])),
        r("brc20_reorg", "h", json!([c.height])),
        r("brc20_commitToDatabase", "", json!([])),
        r("brc20_clearCaches", "", json!([])),
        // ---- the same methods on their refusal / ignore branches (other lock traces, other code) ----
        r("brc20_call", "wrong-index", json!({"from_pkscript": pk, "contract_address": s, "data": "0x0600", "timestamp": c.ts, "hash": c.hash, "tx_idx": c.idx + 1, "inscription_id": "req-bad1", "inscription_byte_len": DEFAULT_LEN, "op_return_tx_id": z})),
        r("brc20_call", "existing-hash", json!({"from_pkscript": pk, "contract_address": s, "data": "0x0600", "timestamp": c.ts, "hash": c.known_block_hash, "tx_idx": c.idx, "inscription_id": "req-bad2", "inscription_byte_len": DEFAULT_LEN, "op_return_tx_id": z})),
        r("brc20_call", "unknown-inscription", json!({"from_pkscript": pk, "contract_inscription_id": "no-such-inscription", "data": "0x0600", "timestamp": c.ts, "hash": c.hash, "tx_idx": c.idx, "inscription_id": "req-call3", "inscription_byte_len": DEFAULT_LEN, "op_return_tx_id": z})),
        r("brc20_call", "zero-length", json!({"from_pkscript": pk, "contract_address": s, "data": "0x0600", "timestamp": c.ts, "hash": c.hash, "tx_idx": c.idx, "inscription_id": "req-call4", "inscription_byte_len": 0, "op_return_tx_id": z})),
        r("brc20_deploy", "empty-data", json!({"from_pkscript": pk, "data": "0x", "timestamp": c.ts, "hash": c.hash, "tx_idx": c.idx, "inscription_id": "req-deploy2", "inscription_byte_len": DEFAULT_LEN, "op_return_tx_id": z})),
        r("brc20_transact", "stale-or-far", json!({"raw_tx_data": hx(&crate::sign::raw_tx(0, crate::inst::chain_id(), 40, Some(s.parse().unwrap()), &[6, 0])), "timestamp": c.ts, "hash": c.hash, "tx_idx": c.idx, "inscription_id": "req-t40", "inscription_byte_len": DEFAULT_LEN, "op_return_tx_id": z})),
        r("brc20_transact", "other-chain", json!({"raw_tx_data": hx(&crate::sign::raw_tx(0, 1, 0, Some(s.parse().unwrap()), &[6, 0])), "timestamp": c.ts, "hash": c.hash, "tx_idx": c.idx, "inscription_id": "req-tc", "inscription_byte_len": DEFAULT_LEN, "op_return_tx_id": z})),
        r("brc20_transact", "creation", json!({"raw_tx_data": hx(&crate::sign::raw_tx(1, crate::inst::chain_id(), 0, None, &crate::asm::CHILD_INIT)), "timestamp": c.ts, "hash": c.hash, "tx_idx": c.idx, "inscription_id": "req-tcr", "inscription_byte_len": DEFAULT_LEN, "op_return_tx_id": z})),
        r("brc20_withdraw", "overdraft", json!({"from_pkscript": pkscript(2), "ticker": "ordi", "amount": "0xffff", "timestamp": c.ts, "hash": c.hash, "tx_idx": c.idx, "inscription_id": "req-wd2"})),
        r("brc20_finaliseBlock", "wrong-count", json!({"timestamp": c.ts, "hash": c.hash, "block_tx_count": c.idx + 1})),
        r("brc20_initialise", "other-height", json!({"genesis_hash": h32(0x99), "genesis_timestamp": c.ts, "genesis_height": c.height + 1})),
        r("brc20_reorg", "too-deep", json!([c.height.saturating_sub(W + 2)])),
        r("brc20_reorg", "above", json!([c.height + 3])),
        // ---- reads ----
        r("brc20_version", "", json!([])),
        r("brc20_balance", "ordi", json!([pk, "ordi"])),
        r("brc20_getTxReceiptByInscriptionId", "known", json!([crate::world::s_insc()])),
        r("brc20_getInscriptionIdByTxHash", "known", json!([c.known_tx])),
        r("brc20_getInscriptionIdByContractAddress", "S", json!([s])),
        r("eth_blockNumber", "", json!([])),
        r("eth_getBlockByNumber", "latest-full", json!(["latest", true])),
        r("eth_getBlockByNumber", "number", json!([b, false])),
        r("eth_getBlockByHash", "known", json!([c.known_block_hash, true])),
        r("eth_getBlockByHash", "unknown", json!([h32(0xfe), false])),
        r("eth_getTransactionCount", "p0", json!([addr_s(pk_addr(0)), "latest"])),
        r("eth_getBlockTransactionCountByNumber", "latest", json!(["latest"])),
        r("eth_getBlockTransactionCountByHash", "known", json!([c.known_block_hash])),
        r("eth_getLogs", "default", json!([{}])),
        r("eth_getLogs", "range", json!([{"fromBlock": "0", "toBlock": "3", "address": s, "topics": [null, [h32(1)]]}])),
        r("eth_call", "set", json!([call, null])),
        r("eth_call", "get-latest", json!([get, "latest"])),
        r("eth_call", "creation@height", json!([{"from": addr_s(pk_addr(1)), "data": hx(&crate::asm::CHILD_INIT)}, "0x1"])),
        r("eth_call", "reverting", json!([{"from": addr_s(pk_addr(0)), "to": s, "data": "0x04"}, null])),
        r("eth_getLogs", "too-wide", json!([{"fromBlock": "0", "toBlock": "9"}])),
        r("eth_getBlockByNumber", "missing", json!(["0x99", true])),
        r("debug_getRawHeader", "by-hash", json!([c.known_block_hash])),
        r("debug_getRawBlock", "by-unknown-hash", json!([h32(0xfe)])),
        r("eth_callMany", "set,get", json!([[call, get], null, {"opReturnTxIds": [h32(0x31)], "bitcoinTxHexes": {}}])),
        r("eth_estimateGas", "set", json!([call, null])),
        r("eth_estimateGasMany", "set,get", json!([[call, get], null, null])),
        r("eth_getStorageAt", "S0", json!([s, "0x0"])),
        r("eth_getCode", "S", json!([s])),
        r("eth_getTransactionReceipt", "known", json!([c.known_tx])),
        r("debug_traceTransaction", "known", json!([c.known_tx])),
        r("debug_getBlockTraceString", "latest", json!(["latest"])),
        r("debug_getBlockTraceHash", "latest", json!(["latest"])),
        r("eth_getTransactionByHash", "known", json!([c.known_tx])),
        r("eth_getTransactionByBlockNumberAndIndex", "h,0", json!([c.height, 0])),
        r("eth_getTransactionByBlockHashAndIndex", "known,0", json!([c.known_block_hash, 0])),
        r("eth_chainId", "", json!([])),
        r("eth_maxPriorityFeePerGas", "", json!([])),
        r("eth_blobBaseFee", "", json!([])),
        r("eth_getBalance", "", json!([s, "latest"])),
        r("eth_getUncleCountByBlockNumber", "", json!([0])),
        r("eth_getUncleCountByBlockHash", "", json!([z])),
        r("eth_getUncleByBlockNumberAndIndex", "", json!([0, 0])),
        r("eth_getUncleByBlockHashAndIndex", "", json!([z, 0])),
        r("net_version", "", json!([])),
        r("web3_clientVersion", "", json!([])),
        r("web3_sha3", "", json!(["0x00"])),
        r("eth_accounts", "", json!([])),
        r("eth_gasPrice", "", json!([])),
        r("eth_syncing", "", json!([])),
        r("txpool_content", "", json!([])),
        r("txpool_contentFrom", "signer0", json!([addr_s(crate::sign::signer_addr(0))])),
        r("debug_getRawHeader", "number", json!([b])),
        r("debug_getRawBlock", "number", json!([b])),
        r("debug_getRawReceipts", "number", json!([b])),
    ]
}

/// Engine state classes: (name, steps from an empty database)
pub fn state_classes() -> Vec<(String, Vec<Step>)> {
    let base = start_with_s();
    let park = TxSpec::Transact { signer: 0, nonce: 1, tgt: Tgt::s(), data: vec![6, 0], len: DEFAULT_LEN };
    let mut with_block = base.clone();
    // logs with 1, 0, 2 and 4 topics (and the controller's events)
    let lg = |slot: u8, n: u8, tp: [u8; 4]| TxSpec::Call { pk: 0, tgt: Tgt::s(), data: crate::asm::s_set(slot, 1, n, tp), len: DEFAULT_LEN };
    with_block.extend(block(vec![s_set(0, 0, 1), TxSpec::Deposit { pk: 0, ticker: "ordi".into(), amount: "0x9".into() }, lg(1, 0, [0; 4]), lg(2, 2, [1, 2, 0, 0]), lg(3, 4, [1, 2, 3, 4])]));
    let mut open = with_block.clone();
    open.push(Step::Tx(s_set(0, 1, 2)));
    let mut pool = with_block.clone();
    pool.extend(block(vec![park]));
    let mut committed = with_block.clone();
    committed.push(Step::Commit);
    let mut reorged = with_block.clone();
    reorged.push(Step::Mine(2));
    reorged.push(Step::Reorg(RTarget::Back(1)));
    // a parked transaction that the drain loop will find expired: parked while block N was open, N .. N+9
    // finalised (the expiry at finalise keeps it one block longer than the drain accepts it)
    let mut expiring = with_block.clone();
    expiring.extend(block(vec![TxSpec::Transact { signer: 0, nonce: 1, tgt: Tgt::s(), data: vec![6, 0], len: DEFAULT_LEN }]));
    expiring.push(Step::Mine(P_BLOCKS - 1));
    vec![
        ("empty".into(), vec![]),
        ("initialised".into(), with_block),
        ("block-open".into(), open),
        ("pool-non-empty".into(), pool),
        ("committed".into(), committed),
        ("after-reorg".into(), reorged),
        ("pool-expiring".into(), expiring),
    ]
}
