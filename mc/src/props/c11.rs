//! C11 — concurrent readers and the indexer can never deadlock the server.
//! (1) lock traces of every handler are extracted from the real code (hook H3), (2) the product of
//! two / three traces is model checked under writer-preferring RwLock semantics (Appendix C),
//! (3) a controlled scheduler drives the real handlers through every schedule with a bounded number
//! of preemptions and checks that what they do is what the model says (trace conformance), that
//! nothing panics and that the engine still serves afterwards.
use crate::evidence::Evidence;
use crate::explore::{trunc, Violation};
use crate::inst::{call_on, panic_text, Inst};
use crate::requests::{all_requests, state_classes, Ctx, Req};
use crate::util::*;
use crate::world::*;
use brc20_prog::verif as v;
use serde::{Deserialize, Serialize};
use serde_json::{json, Value};
use std::cell::Cell;
use std::collections::{BTreeMap, BTreeSet, HashMap, HashSet, VecDeque};
use std::sync::{Arc, Condvar, Mutex};
use std::time::{Duration, Instant};

#[derive(Clone, Copy, Debug, PartialEq, Eq, Hash, Serialize, Deserialize, PartialOrd, Ord)]
pub enum Op {
    AcqR(usize),
    RelR(usize),
    AcqW(usize),
    RelW(usize),
}

#[derive(Clone, Debug, Serialize, Deserialize)]
pub struct Trace {
    pub ops: Vec<Op>,
    pub sites: Vec<String>,
    pub method: String,
    pub label: String,
    pub state: String,
    pub req_index: usize,
    pub state_index: usize,
}

fn to_ops(events: &[v::LockEvent], names: &mut Vec<usize>) -> (Vec<Op>, Vec<String>) {
    let mut ops = Vec::new();
    let mut sites = Vec::new();
    for e in events {
        let idx = match names.iter().position(|x| *x == e.lock) {
            Some(i) => i,
            None => {
                names.push(e.lock);
                names.len() - 1
            }
        };
        let op = match e.kind {
            'r' => Op::AcqR(idx),
            'u' => Op::RelR(idx),
            'w' => Op::AcqW(idx),
            'U' => Op::RelW(idx),
            _ => continue,
        };
        ops.push(op);
        sites.push(format!("{}:{}", e.file.rsplit('/').next().unwrap_or(e.file), e.line));
    }
    (ops, sites)
}

fn build_state(inst: &mut Inst, steps: &[Step]) -> World {
    inst.wipe();
    let mut w = World::new();
    for s in steps {
        w.exec(inst, s);
    }
    w
}

/// Stable lock indices for this instance: L0 = last_block_info, L1 = database (found by probing
/// two handlers whose first acquisitions are known), further locks in order of appearance.
pub fn resolve_names(inst: &mut Inst) -> Vec<usize> {
    let mut names = Vec::new();
    v::lock_log_start();
    inst.call("brc20_clearCaches", json!([]));
    let ev = v::lock_log_take();
    // clear_caches: write(last_block_info) then write(db)
    for e in ev.iter().filter(|e| e.kind == 'w') {
        if !names.contains(&e.lock) {
            names.push(e.lock);
        }
    }
    names
}

/// Layer 1: the lock trace of every handler in every state class.
pub fn extract(inst: &mut Inst, names: &mut Vec<usize>) -> (Vec<Trace>, Vec<String>) {
    let states = state_classes();
    let mut traces = Vec::new();
    let mut problems = Vec::new();
    for (si, (sname, steps)) in states.iter().enumerate() {
        let n = all_requests(&Ctx::of(&World::new())).len();
        for ri in 0..n {
            let w = build_state(inst, steps);
            let req = all_requests(&Ctx::of(&w))[ri].clone();
            // (a simulation issued while a block is open waits for the block with a time-out; under the harness'
            // virtual time the time-out fires at once, and a wait without one is caught by the call watchdog)
            v::lock_log_start();
            let out = inst.call(&req.method, req.params.clone());
            let ev = v::lock_log_take();
            if out.is_panic() {
                problems.push(format!("{} [{}] panicked during extraction in state {}", req.method, req.label, sname));
                inst.recreate();
                continue;
            }
            let (ops, sites) = to_ops(&ev, names);
            traces.push(Trace { ops, sites, method: req.method.clone(), label: req.label.clone(), state: sname.clone(), req_index: ri, state_index: si });
        }
    }
    (traces, problems)
}

// ------------------------------------------------------------------------------------------------
// Layer 2: model checking the product of traces (Appendix C)
// ------------------------------------------------------------------------------------------------

#[derive(Clone, PartialEq, Eq, Hash, Debug)]
struct MState {
    pc: Vec<u16>,
    queued: Vec<bool>,
}

fn holders(traces: &[&[Op]], pc: &[u16], lock: usize) -> (Vec<usize>, Vec<usize>) {
    // (threads holding a read (with multiplicity), threads holding the write)
    let mut r = Vec::new();
    let mut w = Vec::new();
    for (t, tr) in traces.iter().enumerate() {
        let mut rc: i32 = 0;
        let mut wc: i32 = 0;
        for op in &tr[..pc[t] as usize] {
            match op {
                Op::AcqR(l) if *l == lock => rc += 1,
                Op::RelR(l) if *l == lock => rc -= 1,
                Op::AcqW(l) if *l == lock => wc += 1,
                Op::RelW(l) if *l == lock => wc -= 1,
                _ => {}
            }
        }
        for _ in 0..rc.max(0) {
            r.push(t);
        }
        if wc > 0 {
            w.push(t);
        }
    }
    (r, w)
}

pub struct ModelResult {
    pub states: u64,
    pub transitions: u64,
    pub deadlock: Option<Vec<(usize, usize)>>, // (thread, op index) steps leading to it
}

pub fn model_check(traces: &[&[Op]]) -> ModelResult {
    let n = traces.len();
    let init = MState { pc: vec![0; n], queued: vec![false; n] };
    let mut seen: HashMap<MState, Option<(MState, (usize, usize))>> = HashMap::new();
    seen.insert(init.clone(), None);
    let mut q = VecDeque::new();
    q.push_back(init);
    let mut transitions = 0u64;
    while let Some(s) = q.pop_front() {
        let mut any_enabled = false;
        let mut unfinished = false;
        for t in 0..n {
            let pc = s.pc[t] as usize;
            if pc >= traces[t].len() {
                continue;
            }
            unfinished = true;
            let op = traces[t][pc];
            let mut next: Option<MState> = None;
            match op {
                Op::RelR(_) | Op::RelW(_) => {
                    let mut x = s.clone();
                    x.pc[t] += 1;
                    next = Some(x);
                }
                Op::AcqR(l) => {
                    let (_, w) = holders(traces, &s.pc, l);
                    let queued_writer = (0..n).any(|u| s.queued[u] && matches!(traces[u].get(s.pc[u] as usize), Some(Op::AcqW(k)) if *k == l));
                    if w.is_empty() && !queued_writer {
                        let mut x = s.clone();
                        x.pc[t] += 1;
                        next = Some(x);
                    }
                }
                Op::AcqW(l) => {
                    if !s.queued[t] {
                        let mut x = s.clone();
                        x.queued[t] = true;
                        next = Some(x);
                    } else {
                        let (r, w) = holders(traces, &s.pc, l);
                        if r.is_empty() && w.is_empty() {
                            let mut x = s.clone();
                            x.pc[t] += 1;
                            x.queued[t] = false;
                            next = Some(x);
                        }
                    }
                }
            }
            if let Some(x) = next {
                any_enabled = true;
                transitions += 1;
                if !seen.contains_key(&x) {
                    seen.insert(x.clone(), Some((s.clone(), (t, pc))));
                    q.push_back(x);
                }
            }
        }
        if unfinished && !any_enabled {
            // reconstruct the path
            let mut path = Vec::new();
            let mut cur = s.clone();
            while let Some(Some((prev, step))) = seen.get(&cur) {
                path.push(*step);
                cur = prev.clone();
            }
            path.reverse();
            return ModelResult { states: seen.len() as u64, transitions, deadlock: Some(path) };
        }
    }
    ModelResult { states: seen.len() as u64, transitions, deadlock: None }
}

/// Remove adjacent repetitions of a balanced segment (e.g. read-release, read-release, ...): a
/// deadlock state is characterised by each thread's (held locks, requested lock); repeating a
/// segment that starts and ends with the same held set adds no such configuration.
pub fn compress(ops: &[Op]) -> Vec<Op> {
    let mut v: Vec<Op> = ops.to_vec();
    let balanced = |seg: &[Op]| -> bool {
        let mut depth: i32 = 0;
        for o in seg {
            match o {
                Op::AcqR(_) | Op::AcqW(_) => depth += 1,
                _ => {
                    depth -= 1;
                    if depth < 0 {
                        return false;
                    }
                }
            }
        }
        depth == 0
    };
    let mut changed = true;
    while changed {
        changed = false;
        'outer: for len in 2..=12usize {
            if v.len() < 2 * len {
                break;
            }
            for i in 0..=(v.len() - 2 * len) {
                if v[i..i + len] == v[i + len..i + 2 * len] && balanced(&v[i..i + len]) {
                    v.drain(i + len..i + 2 * len);
                    changed = true;
                    break 'outer;
                }
            }
        }
    }
    v
}

/// Discipline facts that generalise the finite result: no trace re-acquires a lock it holds;
/// one global acquisition order.
pub fn discipline(traces: &[Trace]) -> Vec<(String, String)> {
    let mut bad = Vec::new();
    // locks that some handler write-acquires: only there can a writer be queued between two reads
    let written: BTreeSet<usize> = traces.iter().flat_map(|t| t.ops.iter().filter_map(|o| if let Op::AcqW(l) = o { Some(*l) } else { None })).collect();
    let mut edges: BTreeSet<(usize, usize)> = BTreeSet::new();
    let mut example: HashMap<(usize, usize), String> = HashMap::new();
    for t in traces {
        let mut held: Vec<usize> = Vec::new();
        let mut held_sites: Vec<(usize, String)> = Vec::new();
        for (i, op) in t.ops.iter().enumerate() {
            match op {
                Op::AcqR(l) | Op::AcqW(l) => {
                    if held.contains(l) && !written.contains(l) {
                        bad.push(("note:recursive-read-of-a-lock-no-handler-writes".to_string(), format!("{} at {}", t.method, t.sites[i])));
                    }
                    if held.contains(l) && written.contains(l) {
                        bad.push(("recursive-acquisition".to_string(), format!("{} [{}] in state {} acquires lock L{} at {} while already holding it (acquired at {})", t.method, t.label, t.state, l, t.sites[i], held_sites.iter().rev().find(|(k, _)| k == l).map(|x| x.1.clone()).unwrap_or_default())));
                    }
                    for h in &held {
                        if h != l {
                            edges.insert((*h, *l));
                            example.entry((*h, *l)).or_insert_with(|| format!("{} [{}] at {}", t.method, t.label, t.sites[i]));
                        }
                    }
                    held.push(*l);
                    held_sites.push((*l, t.sites[i].clone()));
                }
                Op::RelR(l) | Op::RelW(l) => {
                    if let Some(p) = held.iter().rposition(|x| x == l) {
                        held.remove(p);
                        held_sites.remove(p);
                    }
                }
            }
        }
    }
    for (a, b) in &edges {
        if edges.contains(&(*b, *a)) && a < b {
            bad.push(("lock-order-cycle".to_string(), format!("L{} is taken while holding L{} ({}) and L{} while holding L{} ({})", b, a, example[&(*a, *b)], a, b, example[&(*b, *a)])));
        }
    }
    bad
}

// ------------------------------------------------------------------------------------------------
// Layer 3: controlled scheduler over the real handlers
// ------------------------------------------------------------------------------------------------

thread_local! {
    static MANAGED: Cell<Option<usize>> = const { Cell::new(None) };
}

struct Abort;

#[derive(Clone, Copy, PartialEq, Debug)]
enum TState {
    AtStart,
    Running,
    AtAcquire(usize, bool),
    Finished,
}

#[derive(Default, Clone)]
struct LockModel {
    readers: Vec<usize>,
    writer: Option<usize>,
}

struct SS {
    threads: Vec<TState>,
    turn: Option<usize>,
    locks: HashMap<usize, LockModel>,
    prefix: Vec<usize>,
    /// per scheduling point: (enabled threads in canonical order, chosen index, thread that was running)
    record: Vec<(Vec<usize>, usize, Option<usize>)>,
    abort: bool,
    deadlock: bool,
    observed: Vec<Vec<(usize, char)>>,
    current: Option<usize>,
}

pub struct Sched {
    m: Mutex<SS>,
    cv: Condvar,
}

impl SS {
    fn grantable(&self, t: usize) -> bool {
        match self.threads[t] {
            TState::AtStart => true,
            TState::AtAcquire(l, write) => {
                let lm = self.locks.get(&l).cloned().unwrap_or_default();
                if write {
                    lm.writer.is_none() && lm.readers.is_empty()
                } else {
                    let queued_writer = self.threads.iter().enumerate().any(|(u, s)| u != t && matches!(s, TState::AtAcquire(k, true) if *k == l));
                    lm.writer.is_none() && !queued_writer
                }
            }
            _ => false,
        }
    }

    /// choose who runs next; returns false on deadlock
    fn pick(&mut self) -> bool {
        let waiting: Vec<usize> = (0..self.threads.len()).filter(|t| matches!(self.threads[*t], TState::AtStart | TState::AtAcquire(..))).collect();
        if waiting.is_empty() {
            self.turn = None;
            return true;
        }
        let mut enabled: Vec<usize> = waiting.iter().cloned().filter(|t| self.grantable(*t)).collect();
        if enabled.is_empty() {
            self.deadlock = true;
            self.abort = true;
            return false;
        }
        // canonical order: the thread that was running first (if it can continue), then ascending ids
        if let Some(c) = self.current {
            if let Some(p) = enabled.iter().position(|x| *x == c) {
                enabled.remove(p);
                enabled.insert(0, c);
            }
        }
        let i = self.record.len();
        let choice = if i < self.prefix.len() { self.prefix[i].min(enabled.len() - 1) } else { 0 };
        let chosen = enabled[choice];
        self.record.push((enabled, choice, self.current));
        // grant in the model
        if let TState::AtAcquire(l, write) = self.threads[chosen] {
            let lm = self.locks.entry(l).or_default();
            if write {
                lm.writer = Some(chosen);
            } else {
                lm.readers.push(chosen);
            }
        }
        self.threads[chosen] = TState::Running;
        self.turn = Some(chosen);
        self.current = Some(chosen);
        true
    }
}

impl v::VerifScheduler for Sched {
    fn event(&self, ev: v::LockEvent) {
        let Some(me) = MANAGED.with(|m| m.get()) else { return };
        let mut s = self.m.lock().unwrap_or_else(|e| e.into_inner());
        match ev.kind {
            'r' | 'w' => {
                s.observed[me].push((ev.lock, ev.kind));
                if s.abort {
                    drop(s);
                    std::panic::panic_any(Abort);
                }
                s.threads[me] = TState::AtAcquire(ev.lock, ev.kind == 'w');
                let ok = s.pick();
                self.cv.notify_all();
                if !ok {
                    drop(s);
                    std::panic::panic_any(Abort);
                }
                while s.turn != Some(me) && !s.abort {
                    s = self.cv.wait(s).unwrap_or_else(|e| e.into_inner());
                }
                if s.abort && s.turn != Some(me) {
                    drop(s);
                    std::panic::panic_any(Abort);
                }
            }
            'u' => {
                s.observed[me].push((ev.lock, 'u'));
                if let Some(lm) = s.locks.get_mut(&ev.lock) {
                    if let Some(p) = lm.readers.iter().rposition(|x| *x == me) {
                        lm.readers.remove(p);
                    }
                }
            }
            'U' => {
                s.observed[me].push((ev.lock, 'U'));
                if let Some(lm) = s.locks.get_mut(&ev.lock) {
                    if lm.writer == Some(me) {
                        lm.writer = None;
                    }
                }
            }
            _ => {}
        }
    }
}

pub struct ScheduleRun {
    pub record: Vec<(Vec<usize>, usize, Option<usize>)>,
    pub deadlock: bool,
    pub panics: Vec<(usize, String)>,
    pub observed: Vec<Vec<(usize, char)>>,
    pub results: Vec<Option<Value>>,
}

/// Run the given requests concurrently on the real handlers under one schedule (choice prefix).
pub fn run_schedule(inst: &Inst, reqs: &[Req], prefix: &[usize]) -> ScheduleRun {
    let n = reqs.len();
    let sched = Arc::new(Sched {
        m: Mutex::new(SS { threads: vec![TState::AtStart; n], turn: None, locks: HashMap::new(), prefix: prefix.to_vec(), record: Vec::new(), abort: false, deadlock: false, observed: vec![Vec::new(); n], current: None }),
        cv: Condvar::new(),
    });
    v::set_scheduler(Some(sched.clone() as Arc<dyn v::VerifScheduler>));
    let methods = inst.methods();
    let mut panics = Vec::new();
    let mut results: Vec<Option<Value>> = vec![None; n];
    std::thread::scope(|sc| {
        let mut hs = Vec::new();
        for (i, r) in reqs.iter().enumerate() {
            let sched = sched.clone();
            hs.push(sc.spawn(move || {
                MANAGED.with(|m| m.set(Some(i)));
                // wait for the first turn
                {
                    let mut s = sched.m.lock().unwrap_or_else(|e| e.into_inner());
                    while s.turn != Some(i) && !s.abort {
                        s = sched.cv.wait(s).unwrap_or_else(|e| e.into_inner());
                    }
                }
                let out = std::panic::catch_unwind(std::panic::AssertUnwindSafe(|| call_on(methods, &r.method, &r.params)));
                // finished: hand the baton on
                let mut s = sched.m.lock().unwrap_or_else(|e| e.into_inner());
                s.threads[i] = TState::Finished;
                if s.turn == Some(i) {
                    s.current = None;
                    s.pick();
                }
                sched.cv.notify_all();
                drop(s);
                MANAGED.with(|m| m.set(None));
                out
            }));
        }
        // start: choose the first thread
        {
            let mut s = sched.m.lock().unwrap_or_else(|e| e.into_inner());
            s.pick();
            sched.cv.notify_all();
        }
        for (i, h) in hs.into_iter().enumerate() {
            match h.join() {
                Ok(Ok(crate::inst::CallOutcome::Resp(v))) => results[i] = Some(v),
                Ok(Ok(crate::inst::CallOutcome::Panic(p))) => {
                    if p != "<non-string panic>" {
                        panics.push((i, p));
                    }
                }
                Ok(Err(p)) | Err(p) => {
                    if p.downcast_ref::<Abort>().is_none() {
                        panics.push((i, panic_text(&p)));
                    }
                }
            }
        }
    });
    v::set_scheduler(None);
    let s = sched.m.lock().unwrap_or_else(|e| e.into_inner());
    ScheduleRun { record: s.record.clone(), deadlock: s.deadlock, panics, observed: s.observed.clone(), results }
}

#[derive(Default, Serialize, Deserialize)]
pub struct SchedStats {
    pairs: u64,
    schedules: u64,
    conformant: u64,
    deadlocks: Vec<(String, String)>,
    panics: Vec<(String, String)>,
    nonconformant: Vec<(String, String)>,
    wedges: Vec<(String, String)>,
    max_points: usize,
    complete: bool,
    samples: Vec<Value>,
    /// schedules whose replayed prefix met a different enabled set than the run it was derived from
    #[serde(default)]
    replay_divergences: Vec<(String, String)>,
    /// schedules executed a second time to compare scheduling points and lock events
    #[serde(default)]
    replayed_twice: u64,
}

fn preemptions(record: &[(Vec<usize>, usize, Option<usize>)], upto: usize) -> usize {
    record[..upto].iter().filter(|(en, c, cur)| *c != 0 && cur.map(|x| en.contains(&x)).unwrap_or(false)).count()
}

/// All schedules of a pair of requests with at most `bound` preemptions, on the real handlers.
fn explore_pair(inst: &mut Inst, state_steps: &[Step], reqs: &[Req], expect: &[Vec<Op>], names: &mut Vec<usize>, bound: usize, st: &mut SchedStats, deadline: Instant, label: &str) {
    // a stack entry is a choice prefix together with the enabled sets its parent run met at those points:
    // replaying the prefix must meet exactly the same sets (anything else is nondeterminism the scheduler
    // does not own, and is reported as a machinery error, never as a verdict)
    let mut stack: Vec<(Vec<usize>, Vec<Vec<usize>>)> = vec![(vec![], vec![])];
    let mut seen_prefix: HashSet<Vec<usize>> = HashSet::new();
    while let Some((prefix, expected_enabled)) = stack.pop() {
        if Instant::now() > deadline {
            st.complete = false;
            return;
        }
        if !seen_prefix.insert(prefix.clone()) {
            continue;
        }
        build_state(inst, state_steps);
        let run = run_schedule(inst, reqs, &prefix);
        st.schedules += 1;
        st.max_points = st.max_points.max(run.record.len());
        let sched_text = format!("{} schedule {:?}", label, run.record.iter().map(|(en, c, _)| en[*c]).collect::<Vec<_>>());
        for (j, want) in expected_enabled.iter().enumerate() {
            let got = run.record.get(j).map(|x| &x.0);
            if got != Some(want) || run.record.get(j).map(|x| x.1) != Some(prefix[j]) {
                if st.replay_divergences.len() < 10 {
                    st.replay_divergences.push((label.to_string(), format!("{}: replaying prefix {:?}, point {} met enabled set {:?} (choice {:?}) but the parent run met {:?}", sched_text, prefix, j, got, run.record.get(j).map(|x| x.1), want)));
                }
                break;
            }
        }
        if prefix.is_empty() && run.panics.is_empty() && !run.deadlock {
            // the same schedule twice: identical scheduling points and identical lock events per thread
            build_state(inst, state_steps);
            let again = run_schedule(inst, reqs, &prefix);
            st.replayed_twice += 1;
            if (again.record != run.record || again.observed != run.observed) && st.replay_divergences.len() < 10 {
                st.replay_divergences.push((label.to_string(), format!("{}: the default schedule run twice gave different scheduling points or lock events", sched_text)));
            }
        }
        if run.deadlock {
            if st.deadlocks.len() < 20 {
                let held: Vec<String> = run.observed.iter().enumerate().map(|(t, o)| format!("T{}: {}", t, o.iter().map(|(l, k)| format!("{}{}", k, names.iter().position(|x| x == l).unwrap_or(99))).collect::<Vec<_>>().join(" "))).collect();
                st.deadlocks.push((label.to_string(), format!("{}: no thread can proceed under writer-preferring RwLock semantics; events so far: {}", sched_text, held.join(" | "))));
            }
        }
        for (t, p) in &run.panics {
            if st.panics.len() < 20 {
                st.panics.push((label.to_string(), format!("{}: handler {} ({}) panicked: {}", sched_text, t, reqs[*t].method, p)));
            }
        }
        if !run.deadlock && run.panics.is_empty() {
            // conformance: what the real handlers did is what the extracted traces say
            let mut ok = true;
            for (t, obs) in run.observed.iter().enumerate() {
                let got: Vec<Op> = obs
                    .iter()
                    .filter_map(|(l, k)| {
                        let i = names.iter().position(|x| x == l)?;
                        Some(match k {
                            'r' => Op::AcqR(i),
                            'u' => Op::RelR(i),
                            'w' => Op::AcqW(i),
                            _ => Op::RelW(i),
                        })
                    })
                    .collect();
                if got != expect[t] {
                    ok = false;
                    if st.nonconformant.len() < 10 {
                        st.nonconformant.push((label.to_string(), format!("{}: handler {} ({}) did {:?} but its solo trace is {:?} (the interleaving changed what it does: the model does not cover it)", sched_text, t, reqs[t].method, got, expect[t])));
                    }
                }
            }
            if ok {
                st.conformant += 1;
            }
        }
        // the engine still serves (a panic under the write lock poisons it)
        if !run.panics.is_empty() || run.deadlock {
            let live = std::panic::catch_unwind(std::panic::AssertUnwindSafe(|| {
                let a = call_on(inst.methods(), "brc20_clearCaches", &json!([]));
                let b = call_on(inst.methods(), "eth_blockNumber", &json!([]));
                a.is_ok() && b.is_ok()
            }))
            .unwrap_or(false);
            if !live && st.wedges.len() < 20 {
                st.wedges.push((label.to_string(), format!("{}: afterwards brc20_clearCaches / eth_blockNumber no longer succeed", sched_text)));
            }
            inst.recreate();
            // a new engine: the two engine locks have new addresses (the static ones keep theirs)
            let fresh = resolve_names(inst);
            for (i, a) in fresh.iter().enumerate() {
                if i < names.len() {
                    names[i] = *a;
                }
            }
        }
        // children: deviate at every later point within the preemption bound
        for i in prefix.len()..run.record.len() {
            let (en, _, cur) = &run.record[i];
            let base = preemptions(&run.record, i);
            for alt in 1..en.len() {
                let cost = base + if cur.map(|x| en.contains(&x)).unwrap_or(false) { 1 } else { 0 };
                if cost > bound {
                    continue;
                }
                let mut p: Vec<usize> = run.record[..i].iter().map(|x| x.1).collect();
                p.push(alt);
                stack.push((p, run.record[..=i].iter().map(|x| x.0.clone()).collect()));
            }
        }
        if st.samples.len() < 3 && run.record.len() > 4 {
            st.samples.push(json!({"pair": label, "schedule": run.record.iter().map(|(en, c, _)| en[*c]).collect::<Vec<_>>(), "scheduling_points": run.record.len()}));
        }
    }
}

#[derive(Serialize, Deserialize)]
struct WorkerOut {
    sched: SchedStats,
}

pub fn worker_main(tier: &str, shard: u64, nshards: u64, budget_s: f64) {
    crate::inst::set_hang_limit(std::time::Duration::from_secs(if tier == "thorough" { 40 } else { 15 }));
    crate::inst::set_config("regtest", true);
    let deadline = Instant::now() + Duration::from_secs_f64(budget_s);
    let mut inst = Inst::fresh();
    let mut names = resolve_names(&mut inst);
    let (traces, _) = extract(&mut inst, &mut names);
    let reps = representatives(&traces);
    let states = state_classes();
    let bound = if tier == "thorough" { 2 } else { 1 };
    let mut st = SchedStats { complete: true, ..Default::default() };
    let mut k = 0u64;
    for (i, a) in reps.iter().enumerate() {
        for b in reps.iter().skip(i) {
            // two readers cannot block each other without a writer
            if !a.ops.iter().chain(b.ops.iter()).any(|o| matches!(o, Op::AcqW(_))) {
                continue;
            }
            k += 1;
            if k % nshards != shard {
                continue;
            }
            // both handlers run in the state class the first one was extracted in, if the second
            // has the same trace there; otherwise in the second's
            let (si, ta, tb) = match pick_state(&traces, a, b) {
                Some(x) => x,
                None => continue,
            };
            let w = build_state(&mut inst, &states[si].1);
            let all = all_requests(&Ctx::of(&w));
            let reqs = vec![all[ta.req_index].clone(), all[tb.req_index].clone()];
            let label = format!("{}[{}] || {}[{}] in state {}", ta.method, ta.label, tb.method, tb.label, states[si].0);
            st.pairs += 1;
            explore_pair(&mut inst, &states[si].1, &reqs, &[ta.ops.clone(), tb.ops.clone()], &mut names, bound, &mut st, deadline, &label);
            if Instant::now() > deadline {
                st.complete = false;
                break;
            }
        }
    }
    drop(inst);
    crate::inst::cleanup_scratch();
    println!("@@RESULT {}", serde_json::to_string(&WorkerOut { sched: st }).unwrap());
}

/// one representative per distinct (non-empty) operation sequence
fn representatives(traces: &[Trace]) -> Vec<Trace> {
    let mut seen: BTreeSet<Vec<Op>> = BTreeSet::new();
    let mut out = Vec::new();
    for t in traces {
        if t.ops.is_empty() {
            continue;
        }
        if seen.insert(t.ops.clone()) {
            out.push(t.clone());
        }
    }
    out
}

/// a state class in which both requests show the given traces
fn pick_state<'a>(traces: &'a [Trace], a: &Trace, b: &Trace) -> Option<(usize, &'a Trace, &'a Trace)> {
    for si in 0..state_classes().len() {
        let ta = traces.iter().find(|t| t.state_index == si && t.req_index == a.req_index && t.ops == a.ops);
        let tb = traces.iter().find(|t| t.state_index == si && t.req_index == b.req_index && t.ops == b.ops);
        if let (Some(x), Some(y)) = (ta, tb) {
            return Some((si, x, y));
        }
    }
    None
}

/// The assumption of Appendix C, tested on this platform: a second read behind a queued writer blocks.
pub fn rwlock_probe_child() {
    let l = Arc::new(std::sync::RwLock::new(0u32));
    let g1 = l.read().unwrap();
    let l2 = l.clone();
    let _w = std::thread::spawn(move || {
        let mut g = l2.write().unwrap();
        *g += 1;
    });
    std::thread::sleep(Duration::from_millis(300));
    // the writer is queued now; a recursive read must block forever if the lock is writer-preferring
    let g2 = l.read().unwrap();
    println!("@@PROBE second read granted: {} {}", *g1, *g2);
}

fn rwlock_probe() -> Result<bool, String> {
    let exe = std::env::current_exe().map_err(|e| e.to_string())?;
    let mut c = std::process::Command::new(exe).arg("rwlock-probe").stdout(std::process::Stdio::piped()).stderr(std::process::Stdio::null()).spawn().map_err(|e| e.to_string())?;
    let t = Instant::now();
    loop {
        match c.try_wait() {
            Ok(Some(_)) => return Ok(false), // finished: the second read was granted
            Ok(None) => {
                if t.elapsed() > Duration::from_secs(2) {
                    let _ = c.kill();
                    let _ = c.wait();
                    return Ok(true); // blocked: writer-preferring
                }
                std::thread::sleep(Duration::from_millis(50));
            }
            Err(e) => return Err(e.to_string()),
        }
    }
}

pub fn run(tier: &str, seed: u64) -> i32 {
    let t0 = Instant::now();
    crate::inst::cleanup_stale_scratch();
    crate::inst::set_config("regtest", true);
    let thorough = tier == "thorough";
    let mut errors: Vec<String> = Vec::new();
    // a handler that never returns (alone, in the extraction pass) is a request that is blocked forever
    crate::inst::set_hang_limit(std::time::Duration::from_secs(if thorough { 40 } else { 15 }));
    {
        let tier = tier.to_string();
        crate::inst::set_hang_handler(Box::new(move |what: &str| {
            let v = Violation { property: "C11".into(), kind: "request-never-completes".into(), scenario: "locks".into(), start: "".into(), path: vec![trunc(what, 160)], steps: vec![], detail: format!("running alone on the real engine: {}", what) };
            let mut ev = Evidence::new("C11", &tier, seed, "model_checking");
            ev.coverage = json!({"states": 0, "transitions": 0, "traces_validated_against_impl": 0, "evaluations": 0, "distinct_nontrivial": 0, "rule": "stopped in the extraction pass: a handler did not return", "samples": [], "machinery_errors": []});
            ev.violations = 1;
            ev.write();
            println!("VIOLATION property=C11 replay={}", crate::evidence::write_replay(&v));
            println!("  {} {}", v.kind, trunc(&v.detail, 900));
            crate::inst::cleanup_scratch();
            use std::io::Write;
            let _ = std::io::stdout().flush();
            std::process::exit(1);
        }));
    }
    // assumption check
    let writer_pref = match rwlock_probe() {
        Ok(b) => b,
        Err(e) => {
            errors.push(format!("rwlock probe: {}", e));
            true
        }
    };
    // layer 1
    let mut inst = Inst::fresh();
    let mut names = resolve_names(&mut inst);
    let (traces, problems) = extract(&mut inst, &mut names);
    drop(inst);
    errors.extend(problems);
    let reps = representatives(&traces);
    // the product model runs on compressed traces (adjacent repetitions of balanced segments removed)
    let creps: Vec<Trace> = {
        let mut seen: BTreeSet<Vec<Op>> = BTreeSet::new();
        let mut out = Vec::new();
        for t in &reps {
            let c = compress(&t.ops);
            if seen.insert(c.clone()) {
                // keep the sites of the first occurrence of each kept op (for reporting)
                let mut sites = Vec::new();
                let mut j = 0;
                for o in &c {
                    while j < t.ops.len() && t.ops[j] != *o {
                        j += 1;
                    }
                    sites.push(t.sites.get(j).cloned().unwrap_or_default());
                    j += 1;
                }
                out.push(Trace { ops: c, sites, ..t.clone() });
            }
        }
        out
    };
    let mut vs: Vec<Violation> = Vec::new();
    let mk = |kind: &str, what: String, detail: String| Violation { property: "C11".into(), kind: kind.into(), scenario: "locks".into(), start: "".into(), path: vec![what], steps: vec![], detail };
    let mut harmless_recursive: BTreeSet<String> = BTreeSet::new();
    for (k, d) in discipline(&traces) {
        if k.starts_with("note:") {
            harmless_recursive.insert(d);
        } else {
            vs.push(mk(&k, trunc(&d, 120), d));
        }
    }
    // layer 2: all pairs, and reader / reader / writer and reader / writer / writer triples
    let mut mstates = 0u64;
    let mut mtrans = 0u64;
    let mut combos = 0u64;
    let is_writer = |t: &Trace| t.ops.iter().any(|o| matches!(o, Op::AcqW(_)));
    let describe = |ts: &[&Trace], path: &[(usize, usize)]| -> String {
        let steps: Vec<String> = path.iter().map(|(t, i)| format!("T{}:{:?}@{}", t, ts[*t].ops[*i], ts[*t].sites[*i])).collect();
        format!("threads: {} ; interleaving: {}", ts.iter().enumerate().map(|(i, t)| format!("T{} = {} [{}] in state {}", i, t.method, t.label, t.state)).collect::<Vec<_>>().join(", "), steps.join(" "))
    };
    for (i, a) in creps.iter().enumerate() {
        for b in creps.iter().skip(i) {
            let r = model_check(&[&a.ops, &b.ops]);
            combos += 1;
            mstates += r.states;
            mtrans += r.transitions;
            if let Some(p) = r.deadlock {
                vs.push(mk("model-deadlock", format!("{} [{}] || {} [{}]", a.method, a.label, b.method, b.label), describe(&[a, b], &p)));
            }
        }
    }
    let readers: Vec<&Trace> = creps.iter().filter(|t| !is_writer(t)).collect();
    let writers: Vec<&Trace> = creps.iter().filter(|t| is_writer(t)).collect();
    let mut triple_deadlocks = 0;
    for (i, a) in readers.iter().enumerate() {
        for b in readers.iter().skip(i) {
            for c in &writers {
                let r = model_check(&[&a.ops, &b.ops, &c.ops]);
                combos += 1;
                mstates += r.states;
                mtrans += r.transitions;
                if let Some(p) = r.deadlock {
                    triple_deadlocks += 1;
                    if triple_deadlocks < 5 {
                        vs.push(mk("model-deadlock", format!("{} || {} || {}", a.method, b.method, c.method), describe(&[a, b, c], &p)));
                    }
                }
            }
        }
    }
    for a in &readers {
        for (i, b) in writers.iter().enumerate() {
            for c in writers.iter().skip(i) {
                if !thorough && b.ops.len() * c.ops.len() > 900 {
                    continue;
                }
                let r = model_check(&[&a.ops, &b.ops, &c.ops]);
                combos += 1;
                mstates += r.states;
                mtrans += r.transitions;
                if let Some(p) = r.deadlock {
                    triple_deadlocks += 1;
                    if triple_deadlocks < 5 {
                        vs.push(mk("model-deadlock", format!("{} || {} || {}", a.method, b.method, c.method), describe(&[a, b, c], &p)));
                    }
                }
            }
        }
    }
    // layer 3: the real handlers under the controlled scheduler (worker processes)
    let budget: f64 = std::env::var("VERIF_BUDGET_S").ok().and_then(|s| s.parse().ok()).unwrap_or(if thorough { 900.0 } else { 30.0 });
    let res = crate::hist::spawn_generic("C11", tier, 16, budget, seed, 0, &[]);
    let mut sched = SchedStats { complete: true, ..Default::default() };
    for r in res {
        match r {
            Ok(s) => {
                let w: WorkerOut = serde_json::from_str(&s).expect("worker json");
                sched.pairs += w.sched.pairs;
                sched.schedules += w.sched.schedules;
                sched.conformant += w.sched.conformant;
                sched.deadlocks.extend(w.sched.deadlocks);
                sched.panics.extend(w.sched.panics);
                sched.nonconformant.extend(w.sched.nonconformant);
                sched.wedges.extend(w.sched.wedges);
                sched.max_points = sched.max_points.max(w.sched.max_points);
                sched.complete &= w.sched.complete;
                sched.samples.extend(w.sched.samples);
                sched.replay_divergences.extend(w.sched.replay_divergences);
                sched.replayed_twice += w.sched.replayed_twice;
            }
            Err(e) if e.starts_with("@@HUNG ") => sched.deadlocks.push(("a request did not return under the controlled scheduler".into(), e)),
            Err(e) => errors.push(e),
        }
    }
    for (l, d) in &sched.deadlocks {
        vs.push(mk("schedule-deadlock", l.clone(), d.clone()));
    }
    for (l, d) in &sched.panics {
        vs.push(mk("schedule-panic", l.clone(), d.clone()));
    }
    for (l, d) in &sched.wedges {
        vs.push(mk("schedule-wedge", l.clone(), d.clone()));
    }
    // a handler may legitimately take another branch when the other request changes the state under
    // it; such schedules are still checked for deadlock by the scheduler's own lock model, they are
    // merely not instances of the static product model
    let nonconformant = sched.schedules - sched.conformant;
    for (l, d) in sched.replay_divergences.iter().take(3) {
        errors.push(format!("nondeterminism outside the scheduler ({}): {}", l, d));
    }
    if !writer_pref {
        errors.push("the RwLock of this platform granted a recursive read behind a queued writer: Appendix C does not describe it".into());
    }
    let (new, known) = crate::evidence::triage("C11", vs);
    let mut lock_sites: BTreeMap<String, BTreeSet<String>> = BTreeMap::new();
    for t in &traces {
        for (o, s) in t.ops.iter().zip(t.sites.iter()) {
            let l = match o {
                Op::AcqR(l) | Op::AcqW(l) | Op::RelR(l) | Op::RelW(l) => *l,
            };
            lock_sites.entry(format!("L{}", l)).or_default().insert(s.clone());
        }
    }
    let mut ev = Evidence::new("C11", tier, seed, "model_checking");
    ev.coverage = json!({
        "states": mstates, "transitions": mtrans, "traces_validated_against_impl": sched.conformant,
        "samples": reps.iter().take(4).map(|t| json!({"handler": t.method, "variant": t.label, "state": t.state, "lock_trace": t.ops.iter().map(|o| format!("{:?}", o)).collect::<Vec<_>>()})).chain(sched.samples.iter().take(3).cloned()).collect::<Vec<_>>(),
        "handler_runs_extracted": traces.len(), "distinct_lock_traces": reps.len(), "distinct_compressed_traces": creps.len(), "recursive_reads_of_locks_without_writer": harmless_recursive.iter().collect::<Vec<_>>(), "model_combinations": combos,
        "locks": lock_sites.iter().map(|(k, v)| (k.clone(), v.iter().take(6).cloned().collect::<Vec<_>>())).collect::<BTreeMap<_, _>>(),
        "controlled_scheduler": {"pairs": sched.pairs, "schedules_run_on_real_handlers": sched.schedules, "schedules_conformant_with_model": sched.conformant, "schedules_where_a_handler_took_another_branch": nonconformant, "example_other_branch": sched.nonconformant.iter().take(2).map(|x| trunc(&x.1, 400)).collect::<Vec<_>>(), "preemption_bound": if thorough { 2 } else { 1 }, "max_scheduling_points": sched.max_points, "complete": sched.complete, "default_schedules_run_twice_identical": sched.replayed_twice, "replayed_prefixes_diverging": sched.replay_divergences.len()},
        "rwlock_on_this_platform_is_writer_preferring": writer_pref,
        "evaluations": combos + sched.schedules, "distinct_nontrivial": reps.len() as u64,
        "rule": "lock traces extracted from every handler x 7 state classes on the real code; BFS over the product of all pairs of distinct traces and all reader/reader/writer and reader/writer/writer triples under writer-preferring semantics; all schedules of all pairs with a bounded number of preemptions on the real handlers",
        "machinery_errors": errors,
    });
    ev.assumptions = vec!["std::sync::RwLock on this platform blocks new readers while a writer is queued (tested on every run)".into(), "waits with a timeout (simulations while a block is open) are always eventually enabled".into(), "the finite result generalises to any number of threads through the two discipline facts (no recursive acquisition, one global order), which are checked on every extracted trace".into()];
    ev.violations = new.len() as i64;
    ev.wall_s = t0.elapsed().as_secs_f64();
    ev.write();
    println!("C11 {}: handler runs={} distinct traces={} model combinations={} states={} transitions={}; scheduler pairs={} schedules={} conformant={} complete={}; wall={:.1}s", tier, traces.len(), reps.len(), combos, mstates, mtrans, sched.pairs, sched.schedules, sched.conformant, sched.complete, ev.wall_s);
    let mut seen = BTreeSet::new();
    for (id, _) in &known {
        if seen.insert(id.clone()) {
            println!("KNOWN-FINDING: property=C11 {}", id);
        }
    }
    if !new.is_empty() {
        let mut groups: BTreeMap<String, u64> = BTreeMap::new();
        for v in &new {
            *groups.entry(v.kind.clone()).or_insert(0) += 1;
        }
        println!("  summary: {:?}", groups);
        for v in new.iter().skip(12).take(80) {
            crate::evidence::write_replay(v);
        }
        for v in new.iter().take(12) {
            println!("VIOLATION property=C11 replay={}", crate::evidence::write_replay(v));
            println!("  {} {:?}\n  {}", v.kind, v.path, trunc(&v.detail, 900));
        }
        return 1;
    }
    if !errors.is_empty() {
        for e in errors.iter().take(6) {
            eprintln!("MACHINERY-ERROR: {}", trunc(e, 900));
        }
        return 3;
    }
    if sched.schedules == 0 || reps.len() < 3 {
        eprintln!("MACHINERY-ERROR: vacuous");
        return 3;
    }
    0
}
