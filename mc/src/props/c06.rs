//! C06 — blocks, transactions, receipts, logs and inscription indexes are coherent.
//! Invariant evaluated at every block boundary of every explored history, recomputed with the
//! harness' own code from the receipts the indexer was handed.
use super::common::*;
use crate::explore::*;
use crate::hist::Scenario;
use crate::inst::Inst;
use crate::util::*;
use crate::world::*;
use alloy::primitives::{Address, Bloom, Log, B256};
use alloy_consensus::{Block, ReceiptWithBloom, TxEnvelope};
use alloy_rlp::Decodable;
use serde_json::{json, Value};
use std::str::FromStr;

fn sha256_bytes(b: &[u8]) -> [u8; 32] {
    let h = sha256::digest(b);
    let v = hex::decode(h).unwrap();
    let mut o = [0u8; 32];
    o.copy_from_slice(&v);
    o
}

/// SHA-256 merkle root over the given leaves (a node without a sibling is carried up unchanged).
pub fn merkle_root(leaves: &[[u8; 32]]) -> [u8; 32] {
    if leaves.is_empty() {
        return [0u8; 32];
    }
    let mut level: Vec<[u8; 32]> = leaves.to_vec();
    while level.len() > 1 {
        let mut next = Vec::new();
        for pair in level.chunks(2) {
            if pair.len() == 2 {
                let mut cat = Vec::with_capacity(64);
                cat.extend_from_slice(&pair[0]);
                cat.extend_from_slice(&pair[1]);
                next.push(sha256_bytes(&cat));
            } else {
                next.push(pair[0]);
            }
        }
        level = next;
    }
    level[0]
}

fn q(inst: &mut Inst, m: &str, p: Value) -> Value {
    inst.call(m, p).to_value()
}

fn res(v: &Value) -> &Value {
    v.get("result").unwrap_or(&Value::Null)
}

fn hexu(v: &Value) -> Option<u64> {
    v.as_str().and_then(parse_hex_u64)
}

fn b32(s: &str) -> [u8; 32] {
    let v = hex::decode(s.trim_start_matches("0x")).unwrap_or_default();
    let mut o = [0u8; 32];
    if v.len() == 32 {
        o.copy_from_slice(&v);
    }
    o
}

/// The receipts handed to the indexer by the surviving calls, grouped by height.
pub fn expected_blocks(world: &World) -> Vec<(u64, String, Vec<(String, Value)>)> {
    let mut v = Vec::new();
    // inscription ids of transactions waiting in the pool, by (signer, nonce)
    let mut parked: std::collections::HashMap<(String, u64), String> = std::collections::HashMap::new();
    for r in &world.recs {
        let mut rcpts: Vec<(String, Value)> = Vec::new();
        let mut all: Vec<&Rec> = r.calls.iter().collect();
        if let Some(c) = &r.close {
            all.push(c);
        }
        for rec in all {
            let out: Value = serde_json::from_str(&rec.outcome).unwrap_or(Value::Null);
            let insc = rec.call.params.get("inscription_id").and_then(|x| x.as_str()).unwrap_or("").to_string();
            let signed = rec.call.params.get("raw_tx_data").and_then(|x| x.as_str()).and_then(|x| hex::decode(x.trim_start_matches("0x")).ok()).and_then(|b| crate::sign::decode_raw(&b));
            match out.get("result") {
                Some(Value::Array(a)) => {
                    if a.is_empty() {
                        if let Some((addr, nonce)) = signed {
                            parked.insert((addr_s(addr), nonce), insc.clone());
                        }
                    }
                    for (k, x) in a.iter().enumerate() {
                        if k == 0 {
                            rcpts.push((insc.clone(), x.clone()));
                        } else if let Some((addr, nonce)) = signed {
                            // a waiting transaction executed by this call keeps the inscription it was submitted with
                            let id = parked.remove(&(addr_s(addr), nonce + k as u64)).unwrap_or_else(|| "<unknown parked inscription>".to_string());
                            rcpts.push((id, x.clone()));
                        }
                    }
                }
                Some(Value::Object(o)) if o.contains_key("transactionHash") => rcpts.push((insc.clone(), Value::Object(o.clone()))),
                _ => {}
            }
        }
        if r.close.is_some() {
            v.push((r.height, r.hash.clone(), rcpts));
        }
    }
    v
}

/// `expected_blocks` plus, for blocks built by brc20_initialise (which hands no receipt to the
/// indexer), the receipts served for the transactions the block lists.
pub fn expected_blocks_with_genesis(inst: &mut Inst, world: &World) -> Vec<(u64, String, Vec<(String, Value)>)> {
    let mut exp = expected_blocks(world);
    for r in &world.recs {
        let is_init = r.close.as_ref().map(|c| c.call.method == "brc20_initialise").unwrap_or(false);
        if !is_init {
            continue;
        }
        let blk = q(inst, "eth_getBlockByNumber", json!([format!("{}", r.height), false]));
        if let Some(e) = exp.iter_mut().find(|(h, _, _)| *h == r.height) {
            for th in res(&blk)["transactions"].as_array().cloned().unwrap_or_default() {
                let rc = q(inst, "eth_getTransactionReceipt", json!([th]));
                e.2.push(("BRC20_CONTROLLER_INIT".to_string(), res(&rc).clone()));
            }
        }
    }
    exp
}

pub fn check_chain(inst: &mut Inst, world: &World) -> Vec<(String, String)> {
    let mut bad: Vec<(String, String)> = Vec::new();
    let mut fail = |k: &str, d: String| bad.push((k.to_string(), d));
    let Some(h) = world.h else { return bad };
    let exp = expected_blocks(world);
    let init_heights: Vec<u64> = world.recs.iter().filter(|r| r.close.as_ref().map(|c| c.call.method == "brc20_initialise" && !c.outcome.contains("\"error\":{\"code\":400,\"message\":\"Genesis") ).unwrap_or(false)).map(|r| r.height).collect();
    let head = q(inst, "eth_blockNumber", json!([]));
    if hexu(res(&head)) != Some(h) {
        fail("height", format!("eth_blockNumber {} but {} blocks were finalised", head, h));
    }
    let above = q(inst, "eth_getBlockByNumber", json!([format!("{}", h + 1), false]));
    if !res(&above).is_null() {
        fail("height", format!("block {} exists above the head", h + 1));
    }
    // a transaction hash handed out twice makes every lookup by hash ambiguous: reported once, as such
    let mut dup: std::collections::HashSet<String> = std::collections::HashSet::new();
    {
        let mut seen: std::collections::HashMap<String, (u64, Value)> = std::collections::HashMap::new();
        for (hh, _, rcpts) in &exp {
            for (insc, r) in rcpts {
                let th = r["transactionHash"].as_str().unwrap_or("").to_string();
                if let Some((h0, r0)) = seen.get(&th) {
                    if dup.insert(th.clone()) {
                        fail("duplicate-transaction-hash", format!("transaction hash {} was handed out twice: in block {} (gasUsed {}, index {}) and again in block {} for inscription {} (gasUsed {}, index {})", th, h0, r0["gasUsed"].as_str().unwrap_or("?"), r0["transactionIndex"].as_str().unwrap_or("?"), hh, insc, r["gasUsed"].as_str().unwrap_or("?"), r["transactionIndex"].as_str().unwrap_or("?")));
                    }
                } else {
                    seen.insert(th, (*hh, r.clone()));
                }
            }
        }
    }
    let mut prev_hash = zero32();
    for b in 0..=h {
        let blk = q(inst, "eth_getBlockByNumber", json!([format!("{}", b), false]));
        let blk = res(&blk).clone();
        if blk.is_null() {
            fail("contiguity", format!("block {} missing below head {}", b, h));
            break;
        }
        let hash = blk["hash"].as_str().unwrap_or("").to_string();
        if hexu(&blk["number"]) != Some(b) {
            fail("number", format!("block {} reports number {}", b, blk["number"]));
        }
        if blk["parentHash"].as_str() != Some(prev_hash.as_str()) {
            fail("parent-hash", format!("block {} parentHash {} but block {} has hash {}", b, blk["parentHash"], b.wrapping_sub(1), prev_hash));
        }
        let by_hash = q(inst, "eth_getBlockByHash", json!([hash, false]));
        if canon(res(&by_hash)) != canon(&blk) {
            fail("hash-number-inverse", format!("eth_getBlockByHash({}) differs from eth_getBlockByNumber({})", hash, b));
        }
        let Some((_, ehash, rcpts)) = exp.iter().find(|(hh, _, _)| *hh == b) else {
            fail("machinery", format!("no record of block {}", b));
            continue;
        };
        // brc20_initialise hands no receipt to the indexer: for that block the listed transactions
        // are taken as given and only their mutual consistency is checked
        let mut rcpts = rcpts.clone();
        if init_heights.contains(&b) {
            for th in blk["transactions"].as_array().cloned().unwrap_or_default() {
                let r = q(inst, "eth_getTransactionReceipt", json!([th]));
                rcpts.push(("BRC20_CONTROLLER_INIT".to_string(), res(&r).clone()));
            }
        }
        let rcpts = &rcpts;
        if *ehash != hash {
            fail("block-hash", format!("block {} served with hash {} but was finalised with {}", b, hash, ehash));
        }
        // transactions in index order = accepted receipts in order
        let listed: Vec<String> = blk["transactions"].as_array().map(|a| a.iter().map(|x| x.as_str().unwrap_or("").to_string()).collect()).unwrap_or_default();
        let expected: Vec<String> = rcpts.iter().map(|(_, r)| r["transactionHash"].as_str().unwrap_or("").to_string()).collect();
        if listed != expected {
            fail("block-transactions", format!("block {} lists {:?} but the indexer was handed receipts for {:?}", b, listed, expected));
        }
        let cnt = q(inst, "eth_getBlockTransactionCountByNumber", json!([format!("{}", b)]));
        if hexu(res(&cnt)) != Some(expected.len() as u64) {
            fail("block-tx-count", format!("block {}: count {} expected {}", b, cnt, expected.len()));
        }
        let cnt = q(inst, "eth_getBlockTransactionCountByHash", json!([hash]));
        if hexu(res(&cnt)) != Some(expected.len() as u64) {
            fail("block-tx-count", format!("block {} by hash: count {} expected {}", b, cnt, expected.len()));
        }
        // root, bloom, gas, log indexes from the receipts the indexer holds
        let leaves: Vec<[u8; 32]> = expected.iter().map(|x| b32(x)).collect();
        let root = hx(&merkle_root(&leaves));
        if blk["transactionsRoot"].as_str() != Some(root.as_str()) {
            fail("transactions-root", format!("block {} root {} expected {}", b, blk["transactionsRoot"], root));
        }
        let mut bloom = Bloom::ZERO;
        let mut cum: u64 = 0;
        let mut next_log: u64 = 0;
        for (i, (insc, r)) in rcpts.iter().enumerate() {
            let th = r["transactionHash"].as_str().unwrap_or("").to_string();
            if hexu(&r["transactionIndex"]) != Some(i as u64) {
                fail("receipt-index", format!("block {} receipt #{} has transactionIndex {}", b, i, r["transactionIndex"]));
            }
            if r["blockHash"].as_str() != Some(hash.as_str()) || hexu(&r["blockNumber"]) != Some(b) {
                fail("receipt-block", format!("receipt {} says block {} / {} but is in block {} / {}", th, r["blockNumber"], r["blockHash"], b, hash));
            }
            let gas = hexu(&r["gasUsed"]).unwrap_or(0);
            cum = cum.checked_add(gas).unwrap_or(cum);
            if hexu(&r["cumulativeGasUsed"]) != Some(cum) {
                fail("cumulative-gas", format!("block {} tx {}: cumulativeGasUsed {} but running sum is 0x{:x}", b, i, r["cumulativeGasUsed"], cum));
            }
            for l in r["logs"].as_array().cloned().unwrap_or_default() {
                if hexu(&l["logIndex"]) != Some(next_log) {
                    fail("log-index", format!("block {} tx {}: logIndex {} expected {}", b, i, l["logIndex"], next_log));
                }
                next_log += 1;
                if l["transactionHash"].as_str() != Some(th.as_str()) || hexu(&l["transactionIndex"]) != Some(i as u64) || l["blockHash"].as_str() != Some(hash.as_str()) {
                    fail("log-refs", format!("block {} tx {}: log refers to {} / {} / {}", b, i, l["transactionHash"], l["transactionIndex"], l["blockHash"]));
                }
                let addr = Address::from_str(l["address"].as_str().unwrap_or("")).unwrap_or_default();
                let topics: Vec<B256> = l["topics"].as_array().map(|a| a.iter().map(|t| B256::from(b32(t.as_str().unwrap_or("")))).collect()).unwrap_or_default();
                let data = hex::decode(l["data"].as_str().unwrap_or("0x").trim_start_matches("0x")).unwrap_or_default();
                if let Some(log) = Log::new(addr, topics, data.into()) {
                    bloom.accrue_log(&log);
                }
            }
            if dup.contains(&th) {
                continue;
            }
            // lookups point at each other
            let by_hash = q(inst, "eth_getTransactionReceipt", json!([th]));
            if canon(res(&by_hash)) != canon(r) {
                fail("receipt-by-hash", format!("receipt returned to the indexer for {} ({}) differs from the one served by hash: {}", insc, th, first_diff(&canon(r), &canon(res(&by_hash)))));
            }
            let by_insc = q(inst, "brc20_getTxReceiptByInscriptionId", json!([insc]));
            if canon(res(&by_insc)) != canon(r) {
                fail("receipt-by-inscription", format!("receipt returned to the indexer for inscription {} differs from the one served by inscription id: {}", insc, first_diff(&canon(r), &canon(res(&by_insc)))));
            }
            let back = q(inst, "brc20_getInscriptionIdByTxHash", json!([th]));
            if res(&back).as_str() != Some(insc.as_str()) {
                fail("inscription-by-tx", format!("tx {} was submitted as inscription {} but brc20_getInscriptionIdByTxHash says {}", th, insc, res(&back)));
            }
            let tx = q(inst, "eth_getTransactionByHash", json!([th]));
            let tx = res(&tx).clone();
            if tx["blockHash"].as_str() != Some(hash.as_str()) || hexu(&tx["blockNumber"]) != Some(b) || hexu(&tx["transactionIndex"]) != Some(i as u64) || tx["hash"].as_str() != Some(th.as_str()) {
                fail("tx-by-hash", format!("eth_getTransactionByHash({}) = {} but it is #{} of block {} / {}", th, canon(&tx), i, b, hash));
            }
            let t2 = q(inst, "eth_getTransactionByBlockNumberAndIndex", json!([b, i]));
            if canon(res(&t2)) != canon(&tx) {
                fail("tx-by-number-index", format!("eth_getTransactionByBlockNumberAndIndex({}, {}) differs from eth_getTransactionByHash({})", b, i, th));
            }
            let t3 = q(inst, "eth_getTransactionByBlockHashAndIndex", json!([hash, i]));
            if canon(res(&t3)) != canon(&tx) {
                fail("tx-by-hash-index", format!("eth_getTransactionByBlockHashAndIndex({}, {}) differs from eth_getTransactionByHash({})", hash, i, th));
            }
            if let Some(ca) = r["contractAddress"].as_str() {
                let id = q(inst, "brc20_getInscriptionIdByContractAddress", json!([ca]));
                if res(&id).as_str() != Some(insc.as_str()) {
                    fail("contract-inscription", format!("contract {} was created by inscription {} but maps to {}", ca, insc, res(&id)));
                }
            }
        }
        if hexu(&blk["gasUsed"]) != Some(cum) {
            fail("block-gas", format!("block {} gasUsed {} but receipts sum to 0x{:x}", b, blk["gasUsed"], cum));
        }
        let bl = hx(bloom.as_slice());
        if blk["logsBloom"].as_str() != Some(bl.as_str()) {
            fail("block-bloom", format!("block {} logsBloom is not the union of its logs", b));
        }
        // raw encodings decode to the same data
        let raw = q(inst, "debug_getRawBlock", json!([format!("{}", b)]));
        match res(&raw).as_str().and_then(|s| hex::decode(s.trim_start_matches("0x")).ok()) {
            Some(bytes) => match Block::<TxEnvelope>::decode(&mut bytes.as_slice()) {
                Ok(rb) => {
                    if rb.header.number != b || hx(rb.header.parent_hash.as_slice()) != prev_hash || rb.header.gas_used != cum || hx(rb.header.transactions_root.as_slice()) != root || rb.body.transactions.len() != expected.len() || hx(rb.header.logs_bloom.as_slice()) != bl || Some(rb.header.timestamp) != hexu(&blk["timestamp"]) {
                        fail("raw-block", format!("block {}: raw encoding decodes to number {} parent {} gas {} root {} txs {}", b, rb.header.number, rb.header.parent_hash, rb.header.gas_used, rb.header.transactions_root, rb.body.transactions.len()));
                    }
                }
                Err(e) => fail("raw-block", format!("block {}: raw block does not decode: {}", b, e)),
            },
            None => fail("raw-block", format!("block {}: no raw block", b)),
        }
        let rr = q(inst, "debug_getRawReceipts", json!([format!("{}", b)]));
        match res(&rr).as_array() {
            Some(a) => {
                if a.len() != rcpts.len() {
                    fail("raw-receipts", format!("block {}: {} raw receipts for {} transactions", b, a.len(), rcpts.len()));
                }
                for (x, (_, r)) in a.iter().zip(rcpts.iter()) {
                    let bytes = hex::decode(x.as_str().unwrap_or("").trim_start_matches("0x")).unwrap_or_default();
                    match ReceiptWithBloom::<alloy_consensus::Receipt>::decode(&mut bytes.as_slice()) {
                        Ok(d) => {
                            let st = hexu(&r["status"]) == Some(1);
                            if d.receipt.status.coerce_status() != st || Some(d.receipt.cumulative_gas_used) != hexu(&r["cumulativeGasUsed"]) || d.receipt.logs.len() != r["logs"].as_array().map(|l| l.len()).unwrap_or(0) || Some(hx(d.logs_bloom.as_slice()).as_str()) != r["logsBloom"].as_str() {
                                fail("raw-receipts", format!("block {}: raw receipt decodes to status {:?} cumulative {} logs {}", b, d.receipt.status, d.receipt.cumulative_gas_used, d.receipt.logs.len()));
                            }
                        }
                        Err(e) => fail("raw-receipts", format!("block {}: raw receipt does not decode: {}", b, e)),
                    }
                }
            }
            None => fail("raw-receipts", format!("block {}: no raw receipts", b)),
        }
        prev_hash = hash;
    }
    bad
}

fn oracle(_sc: &Scenario) -> Option<BoundaryOracle<'static>> {
    Some(Box::new(|inst: &mut Inst, world: &World, _outs: &[StepOut]| {
        if world.count() != 0 || world.desync {
            return Vec::new();
        }
        check_chain(inst, world)
    }))
}

pub fn oracle_factory() -> crate::hist::OracleFactory {
    oracle
}

pub fn scenarios(tier: &str) -> Vec<Scenario> {
    let thorough = tier == "thorough";
    let t = |sig: u8, n: u64, v: u8| TxSpec::Transact { signer: sig, nonce: n, tgt: Tgt::s(), data: crate::asm::s_set(1, v, 2, [v, 1, 0, 0]), len: DEFAULT_LEN };
    let zero_len = TxSpec::Call { pk: 2, tgt: Tgt::s(), data: crate::asm::s_set(0, 1, 0, [0; 4]), len: 0 };
    let alpha = vec![
        m_block("B(set,setmany,create)", vec![s_set(0, 0, 1), s_call(1, vec![9, 3, 7]), s_call(2, vec![2])]),
        m_block("B(fail,boom,oog,set)", vec![s_call(0, vec![4]), s_call(1, vec![7]), TxSpec::Call { pk: 1, tgt: Tgt::s(), data: vec![5, 0xff, 0xff], len: 3 }, s_set(0, 1, 2)]),
        m_block("B(deploy,deposit,withdraw-too-much)", vec![
            TxSpec::Deploy { pk: 1, code: crate::asm::s_initcode(), len: DEFAULT_LEN },
            TxSpec::Deposit { pk: 1, ticker: "ordi".into(), amount: "0x5".into() },
            TxSpec::Withdraw { pk: 1, ticker: "ordi".into(), amount: "0x9".into() },
        ]),
        // transactions without logs (a creation, a reverted call) between transactions with logs
        m_block("B(set,create,set,fail,set)", vec![s_set(0, 0, 1), s_call(1, vec![2]), s_set(2, 1, 2), s_call(0, vec![4]), s_set(1, 2, 3)]),
        // two-digit transaction indexes and log indexes
        m_block("B(12 txs, 3 senders)", (0..12u8).map(|i| if i % 4 == 3 { s_call(i % 3, vec![4]) } else { s_set(i % 3, i % 4, 1 + i) }).collect()),
        m_block("B(park s0n1, s0n0 drains, set)", vec![t(0, 1, 6), t(0, 0, 8), s_set(2, 2, 2)]),
        m_block("B(len0)", vec![zero_len.clone()]),
        m_block("B(len0,len0)", vec![zero_len.clone(), zero_len]),
        m_block("B()", vec![]),
        m_mine(1),
        m_commit(0),
        m_reorg(1, RTarget::Back(1)),
        m_reorg(1, RTarget::Back(2)),
    ];
    let mut opts = Opts::new("C06", "coherence");
    opts.nf_compare = false;
    opts.err_unchanged = false;
    vec![Scenario {
        name: "coherence".into(),
        opts,
        starts: vec![("S deployed in block 1".into(), start_with_s())],
        alphabet: alpha,
        bounds: Bounds { depth: if thorough { 6 } else { 4 }, dev: vec![1, 2], dev_total: 3 },
        weight: 1.0,
        network: "regtest".into(),
        traces: true,
    }]
}
