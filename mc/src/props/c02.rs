//! C02 — replicas fed the same call history agree byte for byte.
use super::common::*;
use crate::explore::*;
use crate::hist::Scenario;
use crate::world::*;

pub fn scenarios(tier: &str) -> Vec<Scenario> {
    let thorough = tier == "thorough";
    let t = |sig: u8, n: u64, v: u8| TxSpec::Transact { signer: sig, nonce: n, tgt: Tgt::s(), data: crate::asm::s_set(1, v, 2, [v, 1, 0, 0]), len: DEFAULT_LEN };
    let alpha = vec![
        m_block("B(4 logging txs)", vec![s_set(0, 0, 1), s_set(1, 1, 2), s_set(2, 2, 3), s_call(0, vec![9, 3, 7])]),
        m_block("B(3 txs, 2 senders)", vec![s_set(1, 0, 2), s_call(2, vec![2]), s_set(0, 1, 1)]),
        m_block("B(deposit,deposit,withdraw)", vec![
            TxSpec::Deposit { pk: 1, ticker: "ordi".into(), amount: "0x5".into() },
            TxSpec::Deposit { pk: 2, ticker: "ORDI".into(), amount: "0x7".into() },
            TxSpec::Withdraw { pk: 1, ticker: "ordi".into(), amount: "0x2".into() },
        ]),
        m_block("B(park s0n2,s0n1,s1n1)", vec![t(0, 2, 5), t(0, 1, 6), t(1, 1, 7)]),
        m_block("B(s0n0 drains, s1n0 drains)", vec![t(0, 0, 8), t(1, 0, 9)]),
        m_mine(1),
        m_commit(0),
        m_reorg(1, RTarget::Back(1)),
    ];
    let mut opts = Opts::new("C02", "twins");
    opts.twin_always = true;
    opts.obs_twice = true;
    vec![Scenario {
        name: "twins".into(),
        opts,
        starts: vec![("S deployed in block 1".into(), start_with_s())],
        alphabet: alpha,
        bounds: Bounds { depth: if thorough { 5 } else { 4 }, dev: vec![2, 1], dev_total: 2 },
        weight: 1.0,
        network: "regtest".into(),
        traces: true,
    }]
}
