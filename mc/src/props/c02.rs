//! C02 — replicas fed the same call history agree byte for byte.
use super::common::*;
use crate::explore::*;
use crate::hist::Scenario;
use crate::world::*;

pub fn scenarios(tier: &str) -> Vec<Scenario> {
    let thorough = tier == "thorough";
    let t = |sig: u8, n: u64, v: u8| TxSpec::Transact { signer: sig, nonce: n, tgt: Tgt::s(), data: crate::asm::s_set(1, v, 2, [v, 1, 0, 0]), len: DEFAULT_LEN };
    let alpha = vec![
        m_block("B(4 logging txs)", vec![s_set(0, 0, 1), s_set(1, 1, 2), s_set(2, 2, 3), s_call(0, vec![9, 3, 7])]),
        m_block("B(3 txs, 2 senders, wide)", vec![s_set(1, 0, 2), s_call(2, vec![2]), s_set(0, 1, 1), s_setwide(2, 3), s_by_insc(1, crate::asm::s_set(3, 4, 1, [4, 0, 0, 0]))]),
        m_block("B(deposit,deposit,withdraw)", vec![
            TxSpec::Deposit { pk: 1, ticker: "ordi".into(), amount: "0x5".into() },
            TxSpec::Deposit { pk: 2, ticker: "ORDI".into(), amount: "0x7".into() },
            TxSpec::Withdraw { pk: 1, ticker: "ordi".into(), amount: "0x2".into() },
        ]),
        m_block("B(park s0n2,s0n1,s1n1)", vec![t(0, 2, 5), t(0, 1, 6), t(1, 1, 7)]),
        m_block("B(s0n0 drains, s1n0 drains)", vec![t(0, 0, 8), t(1, 0, 9)]),
        m_mine(1),
        m_commit(0),
        m_reorg(1, RTarget::Back(1)),
    ];
    let mut opts = Opts::new("C02", "twins");
    opts.twin_always = true;
    opts.obs_twice = true;
    // a replica that was restarted at a quiescent point (after a commit, a clearCaches or a reorg) against one that
    // was not: the restarted one only has what is on disk, the other also what it kept in memory; the calls whose
    // answer depends on that are the reorgs at the edge of the window
    let mut deep = start_with_s();
    deep.push(Step::Mine(W + 1));
    deep.push(Step::Commit);
    deep.extend(block(vec![s_set(0, 0, 1)]));
    let restart_alpha = vec![
        m_block("B(set0=1)", vec![s_set(0, 0, 1)]),
        // an inscription id deployed on one branch and, after a reorg, at another address on the next one
        m_deploy_x_first(),
        m_deploy_x_second(),
        m_mine(1),
        m_mine(W - 1),
        m_commit(0),
        mac("K", Kind::Dev(0), vec![Step::Clear]),
        mac("X", Kind::Dev(2), vec![Step::Restart]),
        m_reorg(1, RTarget::Back(1)),
        m_reorg(1, RTarget::Back(W - 1)),
        m_reorg(1, RTarget::Back(W)),
        m_reorg(1, RTarget::Back(W + 1)),
    ];
    let mut ropts = Opts::new("C02", "restarted-replica");
    ropts.twin_always = true;
    vec![Scenario {
        name: "restarted-replica".into(),
        opts: ropts,
        starts: vec![("committed at W+2, one uncommitted block".into(), deep)],
        alphabet: restart_alpha,
        bounds: Bounds { depth: if thorough { 4 } else { 3 }, dev: vec![2, 1, 1], dev_total: 3 },
        weight: 1.0,
        network: "regtest".into(),
        traces: true,
    }, Scenario {
        name: "twins".into(),
        opts,
        starts: vec![("S deployed in block 1".into(), start_with_s())],
        alphabet: alpha,
        bounds: Bounds { depth: if thorough { 5 } else { 4 }, dev: vec![2, 1], dev_total: 2 },
        weight: 3.0,
        network: "regtest".into(),
        traces: true,
    }]
}

// ---- replicas driven at different wall-clock seconds ----------------------------------------------
// The twins of the history explorer are driven in lock step, usually within the same second. Here a
// fixed set of histories whose code reads TIMESTAMP (the context probe of C19) — with the block
// timestamps 0, 1 and the default — is executed on replica A, then, at least 1.1 s later and in another
// wall-clock second, on replica B; every call outcome and the complete observation must agree.

fn timeshift_histories() -> Vec<(String, Vec<Step>)> {
    let ctx = Tgt::Created { pk: 1, nonce: 0 };
    let mut base = start_with_s();
    base.extend(block(vec![TxSpec::Deploy { pk: 1, code: crate::asm::ctx_initcode(), len: DEFAULT_LEN }]));
    let mut v = Vec::new();
    for (name, ts) in [("block timestamp 0", Some(0u64)), ("block timestamp 1", Some(1)), ("default block timestamp", None)] {
        let mut steps = base.clone();
        if let Some(ts) = ts {
            steps.push(Step::Params { ts, zero_hash: false });
        }
        steps.push(Step::Tx(TxSpec::Call { pk: 0, tgt: ctx.clone(), data: vec![0], len: DEFAULT_LEN }));
        steps.push(Step::Tx(TxSpec::Deposit { pk: 1, ticker: "ordi".into(), amount: "0x5".into() }));
        steps.push(Step::Tx(TxSpec::Transact { signer: 0, nonce: 1, tgt: ctx.clone(), data: vec![1], len: DEFAULT_LEN }));
        steps.push(Step::Tx(TxSpec::Transact { signer: 0, nonce: 0, tgt: ctx.clone(), data: vec![2], len: DEFAULT_LEN }));
        steps.push(Step::Tx(TxSpec::Deploy { pk: 2, code: crate::asm::ctx_initcode(), len: DEFAULT_LEN }));
        steps.push(Step::Fin);
        // the probe's slots now hold the context of its last execution in that block (the drained
        // transaction); a second history continues with an empty block and one more probe call
        let mut longer = steps.clone();
        steps.push(Step::Commit);
        if let Some(ts) = ts {
            longer.push(Step::Params { ts, zero_hash: true });
        }
        longer.push(Step::Mine(1));
        if let Some(ts) = ts {
            longer.push(Step::Params { ts, zero_hash: true });
        }
        longer.push(Step::Tx(TxSpec::Call { pk: 2, tgt: Tgt::Created { pk: 2, nonce: 0 }, data: vec![3], len: DEFAULT_LEN }));
        longer.push(Step::Fin);
        longer.push(Step::Commit);
        v.push((format!("{}, then an empty block and a call of the second probe", name), longer));
        v.push((name.to_string(), steps));
    }
    v
}

fn timeshift_run(steps: &[Step]) -> (Vec<String>, String) {
    let mut inst = crate::inst::Inst::fresh();
    let mut w = World::new();
    let mut outs = Vec::new();
    for s in steps {
        let o = w.exec(&mut inst, s);
        outs.push(format!("{} {} => {}", o.call.method, crate::util::canon(&o.call.params), crate::util::canon(&o.outcome.to_value())));
    }
    let mut ob = crate::obs::obs(&mut inst, &w.uni, &crate::obs::ObsCfg::default());
    // what the probes recorded (NUMBER, TIMESTAMP, PREVRANDAO, ... of their last execution)
    for tgt in [Tgt::Created { pk: 1, nonce: 0 }, Tgt::Created { pk: 2, nonce: 0 }] {
        if let Some(a) = tgt.resolve() {
            for slot in 0..14u64 {
                let r = inst.call("eth_getStorageAt", serde_json::json!([a, format!("0x{:x}", slot)]));
                ob.push_str(&format!("eth_getStorageAt [{}, {}] => {}\n", a, slot, crate::util::canon(&r.to_value())));
            }
        }
    }
    if std::env::var("VERIF_DEBUG").is_ok() { eprintln!("{}", ob.lines().filter(|l| l.contains("eth_getStorageAt [")).take(6).collect::<Vec<_>>().join("\n")); for o in &outs { eprintln!("{}", crate::explore::trunc(o, 300)); } }
    (outs, ob)
}

/// Child side (`vmc c02-timeshift`).
pub fn timeshift_main() {
    crate::inst::set_config("regtest", true);
    let hs = timeshift_histories();
    let now_s = || std::time::SystemTime::now().duration_since(std::time::UNIX_EPOCH).map(|d| d.as_secs()).unwrap_or(0);
    let t_a = now_s();
    let a: Vec<(Vec<String>, String)> = hs.iter().map(|(_, st)| timeshift_run(st)).collect();
    let t_a_end = now_s();
    std::thread::sleep(std::time::Duration::from_millis(1100));
    while now_s() <= t_a_end {
        std::thread::sleep(std::time::Duration::from_millis(50));
    }
    let t_b = now_s();
    let b: Vec<(Vec<String>, String)> = hs.iter().map(|(_, st)| timeshift_run(st)).collect();
    let mut bad: Vec<(String, String)> = Vec::new();
    let mut compared = 0u64;
    for (i, (name, _)) in hs.iter().enumerate() {
        for (x, y) in a[i].0.iter().zip(b[i].0.iter()) {
            compared += 1;
            if x != y {
                bad.push((name.clone(), format!("a call answered differently on two replicas driven {} s apart: A: {} | B: {}", t_b - t_a, crate::explore::trunc(x, 700), crate::explore::trunc(y, 700))));
                break;
            }
        }
        compared += 1;
        if a[i].1 != b[i].1 {
            let d = a[i].1.lines().zip(b[i].1.lines()).find(|(x, y)| x != y).map(|(x, y)| format!("A: {} | B: {}", crate::explore::trunc(x, 600), crate::explore::trunc(y, 600))).unwrap_or_default();
            bad.push((name.clone(), format!("a query answers differently on two replicas driven {} s apart: {}", t_b - t_a, d)));
        }
    }
    crate::inst::cleanup_scratch();
    println!("@@TIMESHIFT {}", serde_json::to_string(&serde_json::json!({"histories": hs.iter().map(|h| h.0.clone()).collect::<Vec<_>>(), "seconds_apart": t_b - t_a, "comparisons": compared, "violations": bad})).unwrap());
}

/// Parent side: the golden-digest pass followed by the time-shift pass.
pub fn extra_pass() -> (serde_json::Value, Vec<Violation>, Vec<String>) {
    // the fork-boundary histories need ~30 s of mining: they run beside everything else
    let forks = super::golden::forks_spawn();
    let (mut cov, mut vs, mut errors) = super::golden::check();
    let exe = std::env::current_exe().expect("exe");
    match std::process::Command::new(&exe).arg("c02-timeshift").stderr(std::process::Stdio::null()).output() {
        Ok(o) => {
            let so = String::from_utf8_lossy(&o.stdout).to_string();
            match so.lines().rev().find(|l| l.starts_with("@@TIMESHIFT ")) {
                Some(l) => {
                    let v: serde_json::Value = serde_json::from_str(&l["@@TIMESHIFT ".len()..]).unwrap_or(serde_json::Value::Null);
                    for x in v["violations"].as_array().cloned().unwrap_or_default() {
                        vs.push(Violation { property: "C02".into(), kind: "replicas-differ-across-time".into(), scenario: "timeshift".into(), start: "S and the context probe deployed".into(), path: vec![x[0].as_str().unwrap_or("").to_string()], steps: vec![], detail: x[1].as_str().unwrap_or("").to_string() });
                    }
                    if v["comparisons"].as_u64().unwrap_or(0) == 0 {
                        errors.push("time-shift pass: nothing compared".into());
                    }
                    if let Some(o) = cov.as_object_mut() {
                        o.insert("replicas_at_different_wall_clock_seconds".into(), serde_json::json!({"histories": v["histories"], "seconds_apart": v["seconds_apart"], "comparisons": v["comparisons"]}));
                    }
                }
                None => errors.push(format!("time-shift pass: no result line (exit {:?})", o.status.code())),
            }
        }
        Err(e) => errors.push(format!("time-shift pass: {}", e)),
    }
    let (fcov, fvs, ferr) = super::golden::forks_collect(forks);
    vs.extend(fvs);
    errors.extend(ferr);
    if let Some(o) = cov.as_object_mut() {
        o.insert("fork_boundaries".into(), fcov);
    }
    (cov, vs, errors)
}
