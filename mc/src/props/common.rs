//! Building blocks shared by the property modules: probe transactions, start states, macros.
use crate::asm;
use crate::explore::{mac, Kind, Macro};
use crate::world::*;

pub fn deploy_s() -> TxSpec {
    TxSpec::Deploy { pk: 0, code: asm::s_initcode(), len: DEFAULT_LEN }
}

pub fn s_set(pk: u8, slot: u8, val: u8) -> TxSpec {
    TxSpec::Call { pk, tgt: Tgt::s(), data: asm::s_set(slot, val, 1, [val, 0, 0, 0]), len: DEFAULT_LEN }
}

/// S.setwide: a full-width storage key and value (0 clears the slot)
pub fn s_setwide(pk: u8, val: u8) -> TxSpec {
    TxSpec::Call { pk, tgt: Tgt::s(), data: asm::s_setwide(val), len: DEFAULT_LEN }
}

/// S addressed by the inscription id it was deployed with (the first transaction of `start_with_s`)
pub fn s_by_insc(pk: u8, data: Vec<u8>) -> TxSpec {
    TxSpec::CallByInsc { pk, insc: crate::world::s_insc(), data, len: DEFAULT_LEN }
}

/// An inscription id that is deployed more than once over a history (on different branches, at different addresses)
pub fn x_insc() -> String {
    format!("{}i7", "ee".repeat(32))
}

/// Two blocks that deploy a second copy of S under `x_insc()` and call it through that id; in the second one the
/// deployer has made another deployment first, so the contract lands at another address.
pub fn m_deploy_x_first() -> Macro {
    m_block("B(deploy X, call X by inscription id)", vec![
        TxSpec::DeployAs { pk: 3, code: asm::s_initcode(), len: DEFAULT_LEN, insc: x_insc() },
        TxSpec::CallByInsc { pk: 1, insc: x_insc(), data: asm::s_set(0, 5, 1, [5, 0, 0, 0]), len: DEFAULT_LEN },
    ])
}

pub fn m_deploy_x_second() -> Macro {
    m_block("B(deploy other, deploy X, call X by inscription id)", vec![
        TxSpec::Deploy { pk: 3, code: asm::CHILD_INIT.to_vec(), len: DEFAULT_LEN },
        TxSpec::DeployAs { pk: 3, code: asm::s_initcode(), len: DEFAULT_LEN, insc: x_insc() },
        TxSpec::CallByInsc { pk: 1, insc: x_insc(), data: asm::s_set(0, 6, 1, [6, 0, 0, 0]), len: DEFAULT_LEN },
    ])
}

pub fn s_call(pk: u8, data: Vec<u8>) -> TxSpec {
    TxSpec::Call { pk, tgt: Tgt::s(), data, len: DEFAULT_LEN }
}

/// initialised, S deployed by pkscript 0 in block 1
pub fn start_with_s() -> Vec<Step> {
    let mut v = vec![Step::Init];
    v.extend(block(vec![deploy_s()]));
    v
}

pub fn m_block(name: &str, txs: Vec<TxSpec>) -> Macro {
    mac(name, Kind::Growth, block(txs))
}

pub fn m_mine(n: u64) -> Macro {
    mac(&format!("M{}", n), Kind::Growth, vec![Step::Mine(n)])
}

pub fn m_commit(class: usize) -> Macro {
    mac("C", Kind::Dev(class), vec![Step::Commit])
}

pub fn m_reorg(class: usize, t: RTarget) -> Macro {
    let name = match &t {
        RTarget::Back(k) => format!("R-{}", k),
        RTarget::Abs(n) => format!("R={}", n),
        RTarget::Fwd(k) => format!("R+{}", k),
    };
    mac(&name, Kind::Dev(class), vec![Step::Reorg(t)])
}

pub fn steps_of(macros: &[Macro]) -> Vec<Step> {
    macros.iter().flat_map(|m| m.steps.clone()).collect()
}
