//! C03 — commit points are unobservable; uncommitted work is what is lost.
use super::common::*;
use crate::explore::*;
use crate::hist::Scenario;
use crate::world::*;

pub fn scenarios(tier: &str) -> Vec<Scenario> {
    let thorough = tier == "thorough";
    let park = TxSpec::Transact { signer: 0, nonce: 1, tgt: Tgt::s(), data: crate::asm::s_set(1, 3, 0, [0; 4]), len: DEFAULT_LEN };
    let exec0 = TxSpec::Transact { signer: 0, nonce: 0, tgt: Tgt::s(), data: crate::asm::s_set(1, 4, 1, [4, 0, 0, 0]), len: DEFAULT_LEN };
    let alpha = vec![
        m_block("B(set0=1,wide=5)", vec![s_set(0, 0, 1), s_setwide(1, 5)]),
        // (12 transactions: two-digit indexes in the (block, index) range scans)
        m_block("B(set0=2,set1=1,set2=3,...x12)", (0..12u8).map(|i| match i { 0 => s_set(0, 0, 2), 1 => s_set(1, 1, 1), 2 => s_set(0, 2, 3), 7 => s_setwide(2, 9), 9 => s_by_insc(2, crate::asm::s_set(3, 5, 1, [5, 0, 0, 0])), 10 => TxSpec::CallByInsc { pk: 2, insc: "no-such-inscription".into(), data: vec![6, 0], len: DEFAULT_LEN }, 8 => TxSpec::Call { pk: 1, tgt: Tgt::Addr(format!("0x{}", "00".repeat(20))), data: vec![1, 2, 3], len: DEFAULT_LEN }, _ => s_set(i % 3, 3 + i % 2, i) }).collect()),
        m_block("B(T(s0,n1))", vec![park.clone()]),
        m_block("B(T(s0,n0))", vec![exec0]),
        m_mine(1),
        m_commit(0),
        // a reorg to the current height changes no answer either, and (like every reorg) commits
        m_reorg(0, RTarget::Fwd(0)),
        mac("K", Kind::Dev(1), vec![Step::Clear]),
        mac("Kmid", Kind::Dev(1), vec![Step::Tx(s_set(0, 0, 3)), Step::Clear]),
        mac("Kmid-parked", Kind::Dev(1), vec![Step::Tx(park), Step::Clear]),
        mac("X", Kind::Dev(2), vec![Step::Restart]),
        mac("Xmid", Kind::Dev(2), vec![Step::Tx(s_set(0, 0, 3)), Step::Restart]),
    ];
    let base = start_with_s();
    let mut committed = base.clone();
    committed.push(Step::Commit);
    let mut deep = base.clone();
    deep.push(Step::Mine(W + 1));
    deep.push(Step::Commit);
    deep.extend(block(vec![s_set(0, 0, 1)]));
    // restarts are real close + open of 28 RocksDB instances (75 ms and more under load), so they
    // get their own, shallower scenario in the quick tier
    let alpha_ck: Vec<Macro> = alpha.iter().filter(|m| m.kind != Kind::Dev(2)).cloned().collect();
    // "... or the result of any later call": the later call that depends most on what a commit, a clearCaches
    // or a restart left behind is a reorg at the edge of the window (histories pruned at commit, the
    // highest-block mark kept across clearCaches and restarts)
    let edge = vec![
        m_block("B(set0=1)", vec![s_set(0, 0, 1)]),
        m_deploy_x_first(),
        m_deploy_x_second(),
        m_block("B(set0=2)", vec![s_set(0, 0, 2)]),
        m_mine(1),
        m_mine(W - 1),
        m_commit(0),
        mac("K", Kind::Dev(1), vec![Step::Clear]),
        mac("X", Kind::Dev(2), vec![Step::Restart]),
        m_reorg(3, RTarget::Back(1)),
        m_reorg(3, RTarget::Back(W - 1)),
        m_reorg(3, RTarget::Back(W)),
        m_reorg(3, RTarget::Back(W + 1)),
    ];
    // without restarts: one step deeper, so one reorg depth less (W-1 stays in the scenario with restarts)
    let edge_no_restart: Vec<Macro> = edge.iter().filter(|m| m.kind != Kind::Dev(2) && m.name != format!("R-{}", W - 1) && !m.name.contains("deploy X")).cloned().collect();
    // the inscription id that is deployed again at another address after a reorg: a small scenario of its own
    let redeploy: Vec<Macro> = edge.iter().filter(|m| m.name.contains("deploy X") || ["M1", "C", "K", "R-1"].contains(&m.name.as_str())).cloned().collect();
    // with restarts (a real close / open each): without the two re-deployment blocks
    let edge: Vec<Macro> = edge.into_iter().filter(|m| !m.name.contains("deploy X")).collect();
    vec![
        Scenario {
            name: "window-edge-after-commit-clear-restart".into(),
            opts: Opts::new("C03", "edge"),
            starts: vec![("committed at W+2, one uncommitted block".into(), deep.clone())],
            alphabet: edge,
            bounds: Bounds { depth: if thorough { 4 } else { 3 }, dev: vec![1, 1, 1, 1], dev_total: if thorough { 4 } else { 3 } },
            weight: 2.0,
            network: "regtest".into(),
            traces: true,
        },
        Scenario {
            name: "inscription-id-redeployed-after-reorg".into(),
            opts: Opts::new("C03", "edge"),
            starts: vec![("S deployed in block 1, nothing committed".into(), base.clone())],
            alphabet: redeploy,
            bounds: Bounds { depth: if thorough { 4 } else { 3 }, dev: vec![1, 1, 0, 1], dev_total: 3 },
            weight: 0.5,
            network: "regtest".into(),
            traces: true,
        },
        Scenario {
            name: "window-edge-after-commit-clear".into(),
            opts: Opts::new("C03", "edge"),
            // (the second start: a slot holding a committed value — a key that leaves that value and returns to it between
            // two commits has the same latest value on disk and in memory, but not the same history)
            starts: vec![("S deployed in block 1, nothing committed".into(), base.clone()), ("slot 0 = 1, committed".into(), { let mut c = base.clone(); c.extend(block(vec![s_set(0, 0, 1)])); c.push(Step::Commit); c })],
            alphabet: edge_no_restart,
            bounds: Bounds { depth: if thorough { 5 } else { 4 }, dev: vec![2, 1, 0, 1], dev_total: 3 },
            weight: 2.0,
            network: "regtest".into(),
            traces: true,
        },
        Scenario {
            name: "commit-clear-restart-deep".into(),
            opts: Opts::new("C03", "ckx"),
            starts: vec![("committed at W+2, one uncommitted block".into(), deep)],
            alphabet: alpha.clone(),
            bounds: Bounds { depth: if thorough { 4 } else { 2 }, dev: vec![2, 2, 1], dev_total: if thorough { 3 } else { 2 } },
            weight: 1.0,
            network: "regtest".into(),
            traces: true,
        },
        Scenario {
            name: "commit-clear-restart-committed".into(),
            opts: Opts::new("C03", "ckx"),
            starts: vec![("S deployed and committed".into(), committed)],
            alphabet: alpha.clone(),
            bounds: Bounds { depth: if thorough { 5 } else { 3 }, dev: vec![2, 2, 1], dev_total: if thorough { 3 } else { 2 } },
            weight: if thorough { 4.0 } else { 2.0 },
            network: "regtest".into(),
            traces: true,
        },
        Scenario {
            name: "commit-clear-restart".into(),
            opts: Opts::new("C03", "ckx"),
            starts: vec![("S deployed in block 1, nothing committed".into(), base.clone())],
            alphabet: alpha,
            bounds: Bounds { depth: if thorough { 5 } else { 3 }, dev: vec![2, 2, 1], dev_total: 3 },
            weight: if thorough { 6.0 } else { 2.0 },
            network: "regtest".into(),
            traces: true,
        },
        Scenario {
            name: "commit-clear".into(),
            opts: Opts::new("C03", "ck"),
            starts: vec![("S deployed in block 1, nothing committed".into(), base)],
            alphabet: alpha_ck,
            bounds: Bounds { depth: if thorough { 6 } else { 4 }, dev: vec![2, 2], dev_total: if thorough { 3 } else { 2 } },
            weight: 4.0,
            network: "regtest".into(),
            traces: true,
        },
    ]
}
