//! C12 — without credentials nobody can drive the indexer interface.
//! The complete finite space method x request form x credential x configuration, over real HTTP
//! against a server started with the public `start()`.
use crate::evidence::Evidence;
use crate::explore::{trunc, Violation};
use crate::inst::{fresh_dir, Inst};
use crate::requests::{all_requests, Ctx, Req};
use crate::util::*;
use crate::wire::*;
use crate::world::*;
use serde_json::{json, Value};
use std::collections::{BTreeMap, BTreeSet};
use std::time::Instant;

fn creds() -> Vec<(&'static str, Option<String>, bool)> {
    vec![
        ("no header", None, false),
        ("wrong user", Some(basic("other", PASS)), false),
        ("wrong password", Some(basic(USER, "nope")), false),
        ("malformed header", Some("Basic".to_string()), false),
        ("not base64", Some("Basic !!!!".to_string()), false),
        ("lower-case scheme", Some(basic(USER, PASS).replace("Basic", "basic")), false),
        ("bearer", Some(format!("Bearer {}", &basic(USER, PASS)[6..])), false),
        ("correct", Some(basic(USER, PASS)), true),
    ]
}

fn body_call(r: &Req, id: u64) -> String {
    json!({"jsonrpc": "2.0", "id": id, "method": r.method, "params": r.params}).to_string()
}

fn body_notif(r: &Req) -> String {
    json!({"jsonrpc": "2.0", "method": r.method, "params": r.params}).to_string()
}

struct Srv {
    s: Server,
    good: String,
}

impl Srv {
    fn call(&self, auth: Option<&str>, m: &str, p: Value) -> Value {
        rpc(&self.s.addr, auth, m, &p)
    }
    /// public reads (with credentials, so that the protected trace queries can be included)
    fn digest(&self, ids: &[String]) -> String {
        let s = Tgt::s().resolve().unwrap();
        let mut calls: Vec<Value> = Vec::new();
        let mut id = 0;
        let mut add = |m: &str, p: Value| {
            id += 1;
            calls.push(json!({"jsonrpc": "2.0", "id": id, "method": m, "params": p}));
        };
        for (m, p) in [
            ("eth_blockNumber", json!([])),
            ("eth_getBlockByNumber", json!(["latest", true])),
            ("txpool_content", json!([])),
            ("eth_getStorageAt", json!([s, "0x0"])),
            ("eth_getStorageAt", json!([s, "0x1"])),
            ("eth_getTransactionCount", json!([addr_s(pk_addr(0)), "latest"])),
            ("eth_getTransactionCount", json!([addr_s(crate::sign::signer_addr(0)), "latest"])),
            ("eth_getCode", json!([s])),
            // no simulating method here: while a block is open those wait 5 s for it to be finalised
            ("debug_getBlockTraceHash", json!(["latest"])),
        ] {
            add(m, p);
        }
        for i in ids {
            add("brc20_getTxReceiptByInscriptionId", json!([i]));
        }
        // one batch request (with credentials, so that the protected trace query is included)
        match http(&self.s.addr, Some(self.good.as_str()), &Value::Array(calls).to_string()) {
            Ok((_, b)) => {
                let mut v: Vec<Value> = serde_json::from_str(&b).unwrap_or_default();
                v.sort_by_key(|x| x["id"].as_u64().unwrap_or(0));
                v.iter().map(canon).collect::<Vec<_>>().join("\n")
            }
            Err(e) => format!("transport error {}", e),
        }
    }
}

fn prepare(auth: bool) -> Result<(Srv, World), String> {
    let dir = fresh_dir();
    let s = start_server(&ServerCfg { dir, auth, network: "regtest".into(), traces: true })?;
    let srv = Srv { s, good: basic(USER, PASS) };
    // the state is built through the server itself, with credentials
    let a = Some(srv.good.clone());
    let mut w = World::new();
    let ts = World::default_ts(0);
    srv.call(a.as_deref(), "brc20_initialise", json!({"genesis_hash": zero32(), "genesis_timestamp": ts, "genesis_height": 0}));
    let (t1, h1, _) = (World::default_ts(1), format!("0x{:0>64}", "b00000000001"), ());
    let d = tx_call_with(&crate::props::common::deploy_s(), 0, t1, &h1, &crate::world::s_insc(), &h32(0x77));
    let r = srv.call(a.as_deref(), &d.method, d.params.clone());
    if r.get("result").is_none() {
        return Err(format!("state preparation failed: {}", r));
    }
    srv.call(a.as_deref(), "brc20_deposit", json!({"to_pkscript": pkscript(0), "ticker": "ordi", "amount": "0x9", "timestamp": t1, "hash": h1, "tx_idx": 1, "inscription_id": crate::world::insc_id(2, 0)}));
    srv.call(a.as_deref(), "brc20_finaliseBlock", json!({"timestamp": t1, "hash": h1, "block_tx_count": 2}));
    srv.call(a.as_deref(), "brc20_commitToDatabase", json!([]));
    // the automaton mirror, only used to resolve next-block parameters of the default requests
    w.h = Some(1);
    w.recs.push(BlockRec { height: 0, hash: gen_hash(0), calls: vec![], close: Some(Rec { call: Call { method: "brc20_initialise".into(), params: json!({}) }, outcome: String::new() }) });
    w.recs.push(BlockRec { height: 1, hash: h1, calls: vec![], close: Some(Rec { call: Call { method: "brc20_finaliseBlock".into(), params: json!({}) }, outcome: String::new() }) });
    w.uni.h32.insert(r["result"]["transactionHash"].as_str().unwrap_or("").to_string());
    Ok((srv, w))
}

pub fn run(tier: &str, seed: u64) -> i32 {
    let t0 = Instant::now();
    crate::inst::cleanup_stale_scratch();
    crate::inst::set_config("regtest", true);
    let mut vs: Vec<Violation> = Vec::new();
    let mut errors: Vec<String> = Vec::new();
    let mk = |kind: &str, what: String, detail: String| Violation { property: "C12".into(), kind: kind.into(), scenario: "auth".into(), start: "".into(), path: vec![what], steps: vec![], detail };
    // the method table is the code's: from the dispatch table, cross-checked with the attributes in the source
    let local = Inst::fresh();
    let table: Vec<String> = local.method_names().iter().map(|s| s.to_string()).collect();
    drop(local);
    let src = std::fs::read_to_string(format!("{}/src/api/api.rs", std::env::var("VERIF_REPO").unwrap_or_else(|_| "/repo".into()))).unwrap_or_default();
    let mut declared: BTreeSet<String> = BTreeSet::new();
    for l in src.lines() {
        if let Some(i) = l.find("#[method(name = \"") {
            let rest = &l[i + 17..];
            if let Some(j) = rest.find('"') {
                declared.insert(rest[..j].to_string());
            }
            // further names the same handler answers to
            if let Some(k) = l.find("aliases = [") {
                let list = &l[k + 11..];
                if let Some(e) = list.find(']') {
                    for a in list[..e].split(',') {
                        let a = a.trim().trim_matches('"');
                        if !a.is_empty() {
                            declared.insert(a.to_string());
                        }
                    }
                }
            }
        }
    }
    let tset: BTreeSet<String> = table.iter().cloned().collect();
    if declared != tset {
        errors.push(format!("method table {:?} differs from the #[method] attributes {:?}", tset.difference(&declared).collect::<Vec<_>>(), declared.difference(&tset).collect::<Vec<_>>()));
    }
    let protected: BTreeSet<String> = brc20_prog::verif::INDEXER_METHODS.iter().cloned().collect();
    // (a protected name that no handler answers to is harmless; it is reported, not judged)
    let protected_but_not_served: Vec<String> = protected.iter().filter(|p| !tset.contains(*p)).cloned().collect();
    let (mut srv, w) = match prepare(true) {
        Ok(x) => x,
        Err(e) => {
            eprintln!("MACHINERY-ERROR: {}", e);
            return 3;
        }
    };
    let (open, _w2) = match prepare(false) {
        Ok(x) => x,
        Err(e) => {
            eprintln!("MACHINERY-ERROR: {}", e);
            return 3;
        }
    };
    let reqs_all = all_requests(&Ctx::of(&w));
    // one default request per method (the first variant)
    let mut reqs: Vec<Req> = Vec::new();
    // served names this harness has no request for (a name added later, an alias): driven below with the
    // parameter shapes of every known method
    let mut unknown_names: Vec<String> = Vec::new();
    for m in &table {
        match reqs_all.iter().find(|r| &r.method == m) {
            Some(r) => reqs.push(r.clone()),
            None => unknown_names.push(m.clone()),
        }
    }
    let insc_ids: Vec<String> = vec![crate::world::s_insc(), crate::world::insc_id(2, 0), "req-deploy".into(), "req-call".into(), "req-call2".into(), "req-t0".into(), "req-t1".into(), "req-dep".into(), "req-wd".into()];
    let read = Req { method: "eth_blockNumber".into(), label: "".into(), params: json!([]) };
    let baseline = srv.digest(&insc_ids);
    let mut evals = 0u64;
    let mut refused = 0u64;
    let mut served = 0u64;
    let mut restarts = 0u64;
    let mut mutating: BTreeSet<String> = BTreeSet::new();
    let mut samples: Vec<Value> = Vec::new();
    let forms = ["call", "notification", "batch-first", "batch-middle", "batch-last", "batch-only-this", "batch-after-malformed", "batch-among-malformed", "batch-before-malformed"];
    let is_unauth = |v: &Value| v.get("error").map(|e| e["code"] == json!(401) && e["message"].as_str().map(|m| m.contains("Unauthorized")).unwrap_or(false)).unwrap_or(false);
    for r in &reqs {
        let prot = protected.contains(&r.method);
        for form in forms {
            for (cname, header, good) in creds() {
                evals += 1;
                let body = match form {
                    "call" => body_call(r, 7),
                    "notification" => body_notif(r),
                    "batch-first" => format!("[{},{},{}]", body_call(r, 1), body_call(&read, 2), body_call(&read, 3)),
                    "batch-middle" => format!("[{},{},{}]", body_call(&read, 1), body_call(r, 2), body_call(&read, 3)),
                    "batch-last" => format!("[{},{},{}]", body_call(&read, 1), body_notif(&read), body_call(r, 3)),
                    // elements that are not requests at all stay in the batch as error entries: they must not
                    // shift which element is refused
                    "batch-after-malformed" => format!("[1,{}]", body_call(r, 2)),
                    "batch-among-malformed" => format!("[{{\"foo\":1}},{},\"x\",{},null]", body_call(&read, 1), body_call(r, 2)),
                    "batch-before-malformed" => format!("[{},1,{}]", body_call(r, 3), body_call(&read, 1)),
                    _ => format!("[{},{}]", body_call(r, 1), body_notif(r)),
                };
                let resp = http(&srv.s.addr, header.as_deref(), &body);
                let (status, text) = match resp {
                    Ok(x) => x,
                    Err(e) => {
                        errors.push(format!("transport: {}", e));
                        continue;
                    }
                };
                let parsed: Value = serde_json::from_str(&text).unwrap_or(Value::Null);
                let what = format!("{} as {} with {}", r.method, form, cname);
                let must_refuse = prot && !good;
                // the element(s) that carry the method under test
                let mine: Vec<Value> = match form {
                    "call" => vec![parsed.clone()],
                    "notification" => vec![],
                    "batch-first" => parsed.as_array().map(|a| a.iter().filter(|x| x["id"] == json!(1)).cloned().collect()).unwrap_or_default(),
                    "batch-middle" => parsed.as_array().map(|a| a.iter().filter(|x| x["id"] == json!(2)).cloned().collect()).unwrap_or_default(),
                    "batch-last" | "batch-before-malformed" => parsed.as_array().map(|a| a.iter().filter(|x| x["id"] == json!(3)).cloned().collect()).unwrap_or_default(),
                    "batch-after-malformed" | "batch-among-malformed" => parsed.as_array().map(|a| a.iter().filter(|x| x["id"] == json!(2)).cloned().collect()).unwrap_or_default(),
                    _ => parsed.as_array().map(|a| a.iter().filter(|x| x["id"] == json!(1)).cloned().collect()).unwrap_or_default(),
                };
                if must_refuse {
                    refused += 1;
                    if form != "notification" && (mine.is_empty() || !mine.iter().all(is_unauth)) {
                        vs.push(mk("not-refused", what.clone(), format!("{}: HTTP {} body {}", what, status, trunc(&text, 500))));
                    }
                    // permitted neighbours in the same batch are still served
                    if form.starts_with("batch-") && form != "batch-only-this" && form != "batch-after-malformed" {
                        // (in the forms with malformed elements the permitted neighbour is the read with id 1)
                        let malformed = form.ends_with("-malformed");
                        let others_ok = parsed.as_array().map(|a| a.iter().filter(|x| !mine.contains(x) && (!malformed || x["id"] == json!(1))).all(|x| x.get("result").is_some()) && (!malformed || a.iter().any(|x| x["id"] == json!(1)))).unwrap_or(false);
                        if !others_ok {
                            vs.push(mk("permitted-batch-entries-not-served", what.clone(), format!("{}: body {}", what, trunc(&text, 500))));
                        }
                    }
                    let d = srv.digest(&insc_ids);
                    if d != baseline {
                        vs.push(mk("state-changed-without-credentials", what.clone(), format!("{}: {}", what, first_diff(&baseline, &d))));
                    }
                } else {
                    served += 1;
                    if form != "notification" && mine.iter().any(is_unauth) {
                        vs.push(mk("refused-although-permitted", what.clone(), format!("{}: body {}", what, trunc(&text, 400))));
                    }
                    // restore the committed state; a method that changed it is mutating
                    let d = srv.digest(&insc_ids);
                    if d != baseline {
                        mutating.insert(r.method.clone());
                        if !prot {
                            vs.push(mk("mutating-method-not-protected", what.clone(), format!("{} changed the state and is not on the protected list: {}", r.method, first_diff(&baseline, &d))));
                        }
                        srv.call(Some(&srv.good.clone()), "brc20_clearCaches", json!([]));
                        if srv.digest(&insc_ids) != baseline {
                            // committed state changed (commit / reorg): start over on a new directory
                            restarts += 1;
                            match prepare(true) {
                                Ok((s2, _)) => srv = s2,
                                Err(e) => {
                                    errors.push(e);
                                    break;
                                }
                            }
                            if srv.digest(&insc_ids) != baseline {
                                errors.push("a freshly prepared server does not reproduce the baseline digest".into());
                            }
                        }
                    }
                }
                if samples.len() < 5 && evals % 211 == 7 {
                    samples.push(json!({"case": what, "http_status": status, "body": trunc(&text, 160)}));
                }
            }
        }
        // authentication disabled: every method is served without credentials
        evals += 1;
        let v = rpc(&open.s.addr, None, &r.method, &r.params);
        if is_unauth(&v) {
            vs.push(mk("refused-with-auth-disabled", r.method.clone(), format!("{} without credentials on a server with authentication disabled: {}", r.method, v)));
        }
    }
    // served names without a request of their own: each is called with the parameters of every known method, without
    // and with credentials. One that is served without credentials and changes the state, or that changes the
    // state with credentials and is not on the protected list, breaks the completeness clause.
    let mut unknown_report: Vec<Value> = Vec::new();
    for u in &unknown_names {
        let mut accepted_shapes = 0u64;
        let mut firsts: BTreeSet<String> = BTreeSet::new();
        for k in reqs_all.iter().filter(|k| firsts.insert(k.method.clone())) {
            for (cname, header, good) in [("no header", None, false), ("correct", Some(basic(USER, PASS)), true)] {
                evals += 1;
                let r = Req { method: u.clone(), label: k.label.clone(), params: k.params.clone() };
                let (status, text) = match http(&srv.s.addr, header.as_deref(), &body_call(&r, 7)) {
                    Ok(x) => x,
                    Err(e) => {
                        errors.push(format!("transport: {}", e));
                        continue;
                    }
                };
                let parsed: Value = serde_json::from_str(&text).unwrap_or(Value::Null);
                let what = format!("{} (a served name outside the documented table) with the parameters of {} and {}", u, k.method, cname);
                if parsed.get("result").is_some() {
                    accepted_shapes += 1;
                }
                let d = srv.digest(&insc_ids);
                if d != baseline {
                    if !good {
                        vs.push(mk("state-changed-without-credentials", what.clone(), format!("{}: HTTP {} body {}; {}", what, status, trunc(&text, 300), first_diff(&baseline, &d))));
                    } else {
                        mutating.insert(u.clone());
                        if !protected.contains(u) {
                            vs.push(mk("mutating-method-not-protected", what.clone(), format!("{} changed the state and is not on the protected list: {}", u, first_diff(&baseline, &d))));
                        }
                    }
                    srv.call(Some(&srv.good.clone()), "brc20_clearCaches", json!([]));
                    if srv.digest(&insc_ids) != baseline {
                        restarts += 1;
                        match prepare(true) {
                            Ok((s2, _)) => srv = s2,
                            Err(e) => {
                                errors.push(e);
                                break;
                            }
                        }
                    }
                } else if !good && protected.contains(u) && !is_unauth(&parsed) {
                    vs.push(mk("not-refused", what.clone(), format!("{}: HTTP {} body {}", what, status, trunc(&text, 300))));
                }
            }
        }
        if accepted_shapes == 0 {
            errors.push(format!("served method {} accepts none of the known parameter shapes: it cannot be classified", u));
        }
        unknown_report.push(json!({"name": u, "parameter_shapes_accepted": accepted_shapes, "protected": protected.contains(u), "mutating": mutating.contains(u)}));
    }
    // every write method of the interface must have shown itself mutating (vacuity of the completeness check)
    for m in ["brc20_mine", "brc20_deploy", "brc20_call", "brc20_deposit", "brc20_withdraw", "brc20_transact", "brc20_finaliseBlock"] {
        if !mutating.contains(m) {
            errors.push(format!("{} with credentials did not change the state digest: the completeness check would be vacuous for it", m));
        }
    }
    drop(srv);
    drop(open);
    crate::inst::cleanup_scratch();
    let (new, known) = crate::evidence::triage("C12", vs);
    let mut ev = Evidence::new("C12", tier, seed, "exploration");
    ev.coverage = json!({
        "evaluations": evals, "distinct_nontrivial": refused,
        "rule": "every registered method (from the dispatch table, cross-checked with the #[method] attributes) x {call, notification, first / middle / last element of a batch among permitted calls, batch of only this method, after / among / before batch elements that are not requests at all} x {no header, wrong user, wrong password, malformed, not base64, lower-case scheme, bearer, correct} on a server started with start() and authentication enabled, plus every method without credentials on a server with authentication disabled; after each refused request the state digest (public reads) must be unchanged; a permitted request that changes the digest marks its method as mutating, which must then be on the protected list. distinct_nontrivial = requests that had to be refused",
        "samples": samples, "methods": table.len(), "protected": protected.len(), "must_be_refused": refused, "must_be_served": served, "methods_observed_mutating": mutating.iter().collect::<Vec<_>>(), "server_restarts": restarts,
        "served_names_outside_the_documented_table": unknown_report, "protected_names_no_handler_answers_to": protected_but_not_served,
        "exhaustive": true, "machinery_errors": errors,
    });
    ev.assumptions = vec!["jsonrpsee does not execute notifications at all: for an authorised notification both 'executed' and 'ignored' are accepted".into(), "the state digest is made of public reads; a mutation invisible to every read method would not be seen".into()];
    ev.violations = new.len() as i64;
    ev.wall_s = t0.elapsed().as_secs_f64();
    ev.write();
    println!("C12 {}: {} requests, {} had to be refused, {} had to be served, mutating methods observed: {}, wall={:.1}s", tier, evals, refused, served, mutating.len(), ev.wall_s);
    for (id, _) in known.iter().take(3) {
        println!("KNOWN-FINDING: property=C12 {}", id);
    }
    if !new.is_empty() {
        let mut groups: BTreeMap<String, u64> = BTreeMap::new();
        for v in &new {
            *groups.entry(v.kind.clone()).or_insert(0) += 1;
        }
        println!("  summary: {:?}", groups);
        for v in new.iter().take(10) {
            println!("VIOLATION property=C12 replay={}", crate::evidence::write_replay(v));
            println!("  {} {:?}\n  {}", v.kind, v.path, trunc(&v.detail, 700));
        }
        return 1;
    }
    if !errors.is_empty() {
        for e in errors.iter().take(6) {
            eprintln!("MACHINERY-ERROR: {}", trunc(e, 600));
        }
        return 3;
    }
    0
}
