//! C20 — a database only reopens under the configuration it was created with.
use crate::evidence::Evidence;
use crate::explore::{trunc, Violation};
use crate::inst::fresh_dir;
use crate::util::*;
use crate::wire::*;
use brc20_prog::verif::{Decode, Encode};
use serde_json::{json, Value};
use std::collections::BTreeMap;
use std::path::Path;
use std::time::Instant;

const NETWORKS: [&str; 7] = ["mainnet", "bitcoin", "signet", "testnet", "testnet4", "regtest", "foo"];

fn cfg(dir: &Path, network: &str, traces: bool) -> brc20_prog::Brc20ProgConfig {
    let chain_id: u64 = if network == "bitcoin" || network == "mainnet" { 0x4252433230 } else { 0x425243323073 };
    brc20_prog::Brc20ProgConfig::new("127.0.0.1:0".into(), false, None, None, traces, 1_000_000_000, "http://127.0.0.1:1".into(), "x".into(), "x".into(), network.into(), chain_id, false, dir.to_string_lossy().to_string(), 1 << 20, 1 << 20, 50)
}

fn populate(addr: &str) -> String {
    rpc(addr, None, "brc20_mine", &json!([3, 5]));
    rpc(addr, None, "brc20_commitToDatabase", &json!([]));
    observe(addr)
}

fn observe(addr: &str) -> String {
    let mut s = String::new();
    for (m, p) in [("eth_blockNumber", json!([])), ("eth_getBlockByNumber", json!(["latest", true])), ("eth_getBlockByNumber", json!(["0", false])), ("eth_chainId", json!([]))] {
        s.push_str(&canon(&rpc(addr, None, m, &p)));
        s.push('\n');
    }
    s
}

/// delete or overwrite one recorded configuration row directly in the config database
fn tamper(dir: &Path, key: &str, value: Option<&str>) {
    let mut opts = rocksdb::Options::default();
    opts.create_if_missing(true);
    let db = rocksdb::DB::open(&opts, dir.join("config")).expect("open config db");
    let k = key.to_string().encode_vec();
    match value {
        Some(v) => db.put(&k, v.to_string().encode_vec()).expect("put"),
        None => db.delete(&k).expect("delete"),
    }
    db.flush().ok();
}

fn copy_dir(src: &Path, dst: &Path) {
    let _ = std::fs::create_dir_all(dst);
    if let Ok(rd) = std::fs::read_dir(src) {
        for e in rd.flatten() {
            let p = e.path();
            let d = dst.join(e.file_name());
            if p.is_dir() {
                copy_dir(&p, &d);
            } else {
                let _ = std::fs::copy(&p, &d);
            }
        }
    }
}

/// A directory created and populated under the given configuration through the public start() (then stopped).
fn template(network: &str, traces: bool) -> Result<std::path::PathBuf, String> {
    let dir = fresh_dir();
    let mut s = start_server(&ServerCfg { dir: dir.clone(), auth: false, network: network.into(), traces })?;
    populate(&s.addr);
    s.stop();
    Ok(dir)
}

pub fn run(tier: &str, seed: u64) -> i32 {
    let t0 = Instant::now();
    crate::inst::cleanup_stale_scratch();
    let mut vs: Vec<Violation> = Vec::new();
    let mut errors: Vec<String> = Vec::new();
    let mk = |kind: &str, what: String, detail: String| Violation { property: "C20".into(), kind: kind.into(), scenario: "config".into(), start: "".into(), path: vec![what], steps: vec![], detail };
    let mut evals = 0u64;
    let mut mismatches = 0u64;
    let mut samples: Vec<Value> = Vec::new();
    let configs: Vec<(String, bool)> = NETWORKS.iter().flat_map(|n| [true, false].into_iter().map(move |t| (n.to_string(), t))).collect();
    // (1) all 196 ordered pairs through the configuration validation the start-up path calls
    for (cn, ct) in &configs {
        let dir = fresh_dir();
        if let Err(e) = brc20_prog::verif::validate_config_database(&cfg(&dir, cn, *ct)) {
            errors.push(format!("creating a database as {}/{} failed: {}", cn, ct, e));
            continue;
        }
        for (rn, rt) in &configs {
            evals += 1;
            let same = cn == rn && ct == rt;
            let r = brc20_prog::verif::validate_config_database(&cfg(&dir, rn, *rt));
            if same && r.is_err() {
                vs.push(mk("identical-configuration-refused", format!("{}/{} reopened as itself", cn, ct), format!("{:?}", r.as_ref().err().map(|e| e.to_string()))));
            }
            if !same {
                mismatches += 1;
                if r.is_ok() {
                    vs.push(mk("mismatch-accepted", format!("created {}/traces={} reopened {}/traces={}", cn, ct, rn, rt), "validate_config_database accepted a different configuration".into()));
                }
            }
        }
        remove_dir(&dir);
    }
    // (2) through the public start(): the diagonal, and mismatches (quick: a rotating selection; thorough: all)
    let mut started = 0u64;
    for (ci, (cn, ct)) in configs.iter().enumerate() {
        let dir = fresh_dir();
        let before = match start_server(&ServerCfg { dir: dir.clone(), auth: false, network: cn.clone(), traces: *ct }) {
            Ok(mut s) => {
                let o = populate(&s.addr);
                s.stop();
                o
            }
            Err(e) => {
                errors.push(format!("start() on a fresh directory as {}/{} failed: {}", cn, ct, e));
                continue;
            }
        };
        started += 1;
        for (ri, (rn, rt)) in configs.iter().enumerate() {
            let same = ci == ri;
            evals += 1;
            match start_server(&ServerCfg { dir: dir.clone(), auth: false, network: rn.clone(), traces: *rt }) {
                Ok(mut s) => {
                    let after = observe(&s.addr);
                    s.stop();
                    if !same {
                        vs.push(mk("mismatch-started", format!("created {}/traces={} started as {}/traces={}", cn, ct, rn, rt), format!("start() served data: {}", trunc(&after, 300))));
                    } else if after != before {
                        vs.push(mk("state-differs-after-reopen", format!("{}/traces={}", cn, ct), first_diff(&before, &after)));
                    }
                    started += 1;
                }
                Err(e) => {
                    if same {
                        vs.push(mk("identical-configuration-refused", format!("{}/traces={} restarted as itself", cn, ct), e.clone()));
                    } else {
                        mismatches += 1;
                    }
                    if samples.len() < 4 && !same {
                        samples.push(json!({"created": format!("{}/traces={}", cn, ct), "started_as": format!("{}/traces={}", rn, rt), "start_error": trunc(&e, 160)}));
                    }
                }
            }
        }
        remove_dir(&dir);
    }
    // (3) tampered / missing records, foreign directories. Directories created with trace recording on and with it off,
    // each reopened under its creating configuration: a record that is missing or reads anything but the recorded
    // value must refuse the start, whatever the configured value is (a missing trace record is not "off")
    let keys = ["DB_VERSION", "PROTOCOL_VERSION", "BITCOIN_RPC_NETWORK", "EVM_RECORD_TRACES"];
    let creating: Vec<(&str, bool)> = vec![("regtest", true), ("regtest", false)];
    let mut templates: Vec<(String, bool, std::path::PathBuf)> = Vec::new();
    for (cn, ct) in &creating {
        match template(cn, *ct) {
            Ok(d) => templates.push((cn.to_string(), *ct, d)),
            Err(e) => errors.push(e),
        }
    }
    let read_rec0 = |dir: &Path, key: &str| -> Option<String> {
        let mut opts = rocksdb::Options::default();
        opts.create_if_missing(false);
        let db = rocksdb::DB::open(&opts, dir.join("config")).ok()?;
        let v = db.get(key.to_string().encode_vec()).ok()??;
        String::decode_vec(&v).ok()
    };
    for (cn, ct, tpl) in &templates {
        for k in keys {
            let recorded = read_rec0(tpl, k);
            for (what, val) in [("missing", None), ("altered", Some("999")), ("empty", Some("")), ("'1'", Some("1")), ("'0'", Some("0")), ("'true'", Some("true")), ("'false'", Some("false")), ("'TRUE'", Some("TRUE")), ("'off'", Some("off"))] {
                if val.is_some() && val.map(|v| v.to_string()) == recorded {
                    continue;
                }
                let dir = fresh_dir();
                copy_dir(tpl, &dir);
                tamper(&dir, k, val);
                evals += 1;
                mismatches += 1;
                if let Ok(mut s) = start_server(&ServerCfg { dir: dir.clone(), auth: false, network: cn.clone(), traces: *ct }) {
                    s.stop();
                    vs.push(mk("tampered-record-accepted", format!("{} {} (created and reopened under {}/traces={})", k, what, cn, ct), format!("start() under {}/traces={} served a database created under the same configuration whose {} record is {} (recorded value {:?})", cn, ct, k, what, recorded)));
                }
                remove_dir(&dir);
            }
        }
    }
    // near misses of each recorded value (a prefix / extension / case / whitespace variant must not pass), and
    // a populated directory that lost its configuration database
    let read_rec = |dir: &Path, key: &str| -> Option<String> {
        let mut opts = rocksdb::Options::default();
        opts.create_if_missing(false);
        let db = rocksdb::DB::open(&opts, dir.join("config")).ok()?;
        let v = db.get(key.to_string().encode_vec()).ok()??;
        String::decode_vec(&v).ok()
    };
    for (cn, ct, tpl) in &templates {
    for k in keys {
        for variant in ["append-0", "append-.1", "drop-last-char", "upper-case", "leading-space", "trailing-newline"] {
            let dir = fresh_dir();
            copy_dir(tpl, &dir);
            let Some(cur) = read_rec(&dir, k) else {
                errors.push(format!("recorded value of {} not readable", k));
                remove_dir(&dir);
                continue;
            };
            let new = match variant {
                "append-0" => format!("{}0", cur),
                "append-.1" => format!("{}.1", cur),
                "drop-last-char" => cur[..cur.len().saturating_sub(1)].to_string(),
                "upper-case" => cur.to_uppercase(),
                "leading-space" => format!(" {}", cur),
                _ => format!("{}\n", cur),
            };
            if new == cur {
                remove_dir(&dir);
                continue;
            }
            tamper(&dir, k, Some(&new));
            evals += 1;
            mismatches += 1;
            if let Ok(mut s) = start_server(&ServerCfg { dir: dir.clone(), auth: false, network: cn.clone(), traces: *ct }) {
                s.stop();
                vs.push(mk("tampered-record-accepted", format!("{} {} (created and reopened under {}/traces={})", k, variant, cn, ct), format!("start() served a database whose {} record is {:?} instead of {:?}", k, new, cur)));
            }
            remove_dir(&dir);
        }
    }
    }
    {
        let dir = fresh_dir();
        if let Ok(mut s) = start_server(&ServerCfg { dir: dir.clone(), auth: false, network: "regtest".into(), traces: true }) {
            populate(&s.addr);
            s.stop();
            // three starts in a row under the identical configuration serve the same state
            let mut seen: Vec<String> = Vec::new();
            for round in 0..3 {
                match start_server(&ServerCfg { dir: dir.clone(), auth: false, network: "regtest".into(), traces: true }) {
                    Ok(mut s) => {
                        seen.push(observe(&s.addr));
                        s.stop();
                    }
                    Err(e) => vs.push(mk("identical-configuration-refused", format!("regtest/traces=true, restart number {}", round + 1), e)),
                }
                evals += 1;
            }
            if seen.windows(2).any(|w| w[0] != w[1]) {
                vs.push(mk("state-differs-after-reopen", "regtest/traces=true restarted three times".into(), first_diff(&seen[0], seen.last().unwrap())));
            }
            let _ = std::fs::remove_dir_all(dir.join("config"));
            evals += 1;
            mismatches += 1;
            if let Ok(mut s) = start_server(&ServerCfg { dir: dir.clone(), auth: false, network: "regtest".into(), traces: true }) {
                s.stop();
                vs.push(mk("foreign-directory-accepted", "populated directory whose configuration database was deleted".into(), "start() served a populated directory without recorded configuration".into()));
            }
        }
        remove_dir(&dir);
    }
    // start sequences: a refused start must not write anything — the same wrong configuration is refused
    // again, and the creating configuration still reopens and serves the same state
    for (wn, wt, what) in [("signet", true, "another network"), ("regtest", false, "the other trace setting"), ("mainnet", false, "both")] {
        let dir = fresh_dir();
        let before = match start_server(&ServerCfg { dir: dir.clone(), auth: false, network: "regtest".into(), traces: true }) {
            Ok(mut s) => {
                populate(&s.addr);
                let o = observe(&s.addr);
                s.stop();
                o
            }
            Err(e) => {
                errors.push(e);
                continue;
            }
        };
        for attempt in 1..=2 {
            evals += 1;
            mismatches += 1;
            if let Ok(mut s) = start_server(&ServerCfg { dir: dir.clone(), auth: false, network: wn.into(), traces: wt }) {
                s.stop();
                vs.push(mk("mismatch-started", format!("created regtest/traces=true, started with {} (attempt {})", what, attempt), format!("start() under {}/traces={} served a directory created under regtest/traces=true on attempt {}", wn, wt, attempt)));
                break;
            }
        }
        evals += 1;
        match start_server(&ServerCfg { dir: dir.clone(), auth: false, network: "regtest".into(), traces: true }) {
            Ok(mut s) => {
                let after = observe(&s.addr);
                s.stop();
                if after != before {
                    vs.push(mk("state-differs-after-reopen", format!("regtest/traces=true after two refused starts with {}", what), first_diff(&before, &after)));
                }
            }
            Err(e) => vs.push(mk("identical-configuration-refused", format!("regtest/traces=true after two refused starts with {}", what), e)),
        }
        remove_dir(&dir);
    }
    // a configuration database that holds only some of the recorded keys (a first start that died half-way)
    for (cn, ct, tpl) in &templates {
        // keep = 4: all but the last record (a first start that died in front of its last write)
        for keep in 0..5usize {
            let dir = fresh_dir();
            copy_dir(tpl, &dir);
            for (i, k) in keys.iter().enumerate() {
                if (keep < 4 && i != keep) || (keep == 4 && i == 3) {
                    tamper(&dir, k, None);
                }
            }
            evals += 1;
            mismatches += 1;
            if let Ok(mut s) = start_server(&ServerCfg { dir: dir.clone(), auth: false, network: cn.clone(), traces: *ct }) {
                s.stop();
                let what = if keep < 4 { format!("only {} recorded", keys[keep]) } else { "every record but the last one".to_string() };
                vs.push(mk("tampered-record-accepted", format!("{} ({}/traces={})", what, cn, ct), format!("start() under {}/traces={} served a populated directory whose configuration database holds {}", cn, ct, what)));
            }
            remove_dir(&dir);
        }
    }
    for (_, _, tpl) in &templates {
        remove_dir(tpl);
    }
    for what in ["hidden file only", "LOCK and LOG files only", "a sub-directory named like a table with a file in it"] {
        let dir = fresh_dir();
        match what {
            "hidden file only" => std::fs::write(dir.join(".DS_Store"), b"x").unwrap(),
            "LOCK and LOG files only" => {
                std::fs::write(dir.join("LOCK"), b"").unwrap();
                std::fs::write(dir.join("LOG"), b"log").unwrap();
            }
            _ => {
                std::fs::create_dir_all(dir.join("db_account")).unwrap();
                std::fs::write(dir.join("db_account").join("000001.sst"), b"not a table").unwrap();
            }
        }
        evals += 1;
        mismatches += 1;
        if let Ok(mut s) = start_server(&ServerCfg { dir: dir.clone(), auth: false, network: "regtest".into(), traces: true }) {
            s.stop();
            vs.push(mk("foreign-directory-accepted", what.to_string(), format!("start() served a non-empty directory without recorded configuration ({})", what)));
        }
        remove_dir(&dir);
    }
    for what in ["foreign file", "empty config database", "only table directories"] {
        let dir = fresh_dir();
        match what {
            "foreign file" => std::fs::write(dir.join("notes.txt"), b"hello").unwrap(),
            "empty config database" => {
                let mut o = rocksdb::Options::default();
                o.create_if_missing(true);
                drop(rocksdb::DB::open(&o, dir.join("config")).unwrap());
            }
            _ => std::fs::create_dir_all(dir.join("account")).unwrap(),
        }
        evals += 1;
        mismatches += 1;
        if let Ok(mut s) = start_server(&ServerCfg { dir: dir.clone(), auth: false, network: "regtest".into(), traces: true }) {
            s.stop();
            vs.push(mk("foreign-directory-accepted", what.to_string(), format!("start() served a non-empty directory without recorded configuration ({})", what)));
        }
        remove_dir(&dir);
    }
    crate::inst::cleanup_scratch();
    let (new, known) = crate::evidence::triage("C20", vs);
    let mut ev = Evidence::new("C20", tier, seed, "exploration");
    ev.coverage = json!({
        "evaluations": evals, "distinct_nontrivial": mismatches,
        "rule": "all 196 ordered pairs (creating configuration, reopening configuration) over 7 network names x trace on/off through validate_config_database; through the public start() in child processes: every configuration restarted as itself on a populated directory (must serve the same state) and mismatching pairs (all 182); each of the 4 recorded keys missing / altered / empty / six near misses of the recorded value (extension, truncation, case, white space); three restarts in a row; two refused starts with a wrong configuration followed by the right one (3 kinds of mismatch); configuration databases holding only one of the four keys; 7 kinds of non-empty directories without recorded configuration. distinct_nontrivial = cases that had to be refused",
        "samples": samples, "servers_started": started, "exhaustive": true, "machinery_errors": errors,
    });
    ev.assumptions = vec!["network names are compared as recorded (mainnet and bitcoin are different configurations to the check, as they are to the code)".into()];
    ev.violations = new.len() as i64;
    ev.wall_s = t0.elapsed().as_secs_f64();
    ev.write();
    println!("C20 {}: {} cases, {} had to be refused, {} servers started, wall={:.1}s", tier, evals, mismatches, started, ev.wall_s);
    for (id, _) in known.iter().take(3) {
        println!("KNOWN-FINDING: property=C20 {}", id);
    }
    if !new.is_empty() {
        let mut groups: BTreeMap<String, u64> = BTreeMap::new();
        for v in &new {
            *groups.entry(v.kind.clone()).or_insert(0) += 1;
        }
        println!("  summary: {:?}", groups);
        for v in new.iter().take(10) {
            println!("VIOLATION property=C20 replay={}", crate::evidence::write_replay(v));
            println!("  {} {:?}\n  {}", v.kind, v.path, trunc(&v.detail, 500));
        }
        return 1;
    }
    if !errors.is_empty() {
        for e in errors.iter().take(6) {
            eprintln!("MACHINERY-ERROR: {}", trunc(e, 600));
        }
        return 3;
    }
    0
}
