//! C19 — contracts see exactly the block context the indexer supplied.
use super::common::*;
use crate::explore::*;
use crate::hist::Scenario;
use crate::inst::Inst;
use crate::util::*;
use crate::world::*;
use serde_json::{json, Value};
use std::collections::HashMap;

fn ctx_tgt() -> Tgt {
    Tgt::Created { pk: 1, nonce: 0 }
}

/// a proxy that forwards to the probe: the probe then runs as a nested call
fn proxy_tgt() -> Tgt {
    Tgt::Created { pk: 3, nonce: 0 }
}

fn word_of_addr(a: &str) -> String {
    format!("0x{:0>64}", a.trim_start_matches("0x").to_lowercase())
}

fn word_u64(v: u64) -> String {
    format!("0x{:064x}", v)
}

struct Exec {
    height: u64,
    ts: u64,
    hash: String,
    sender: String,
    txid: String,
    how: String,
    /// the immediate caller the probe must have seen (the sender, or the proxy for a nested call)
    caller: String,
}

fn last_ctx_exec(world: &World) -> (Option<Exec>, Vec<(String, String)>) {
    let ctx = ctx_tgt().resolve().unwrap();
    let proxy = proxy_tgt().resolve();
    let mut last: Option<Exec> = None;
    let mut bad = Vec::new();
    let mut parked: HashMap<(String, u64), String> = HashMap::new();
    // the probe contract exists only while its deployment survives
    let mut deployed = false;
    for rec in &world.recs {
        let mut all: Vec<&Rec> = rec.calls.iter().collect();
        if let Some(c) = &rec.close {
            all.push(c);
        }
        for r in all {
            let out: Value = serde_json::from_str(&r.outcome).unwrap_or(Value::Null);
            let p = &r.call.params;
            let receipts: Vec<Value> = match out.get("result") {
                Some(Value::Array(a)) => a.clone(),
                Some(Value::Object(o)) if o.contains_key("transactionHash") => vec![Value::Object(o.clone())],
                _ => vec![],
            };
            let signed = p.get("raw_tx_data").and_then(|x| x.as_str()).and_then(|x| hex::decode(x.trim_start_matches("0x")).ok()).and_then(|b| crate::sign::decode_raw(&b));
            let txid = p.get("op_return_tx_id").and_then(|x| x.as_str()).unwrap_or(&zero32()).to_string();
            if r.call.method == "brc20_transact" && receipts.is_empty() && out.get("error").is_none() {
                if let Some((a, n)) = signed {
                    parked.insert((addr_s(a), n), txid.clone());
                }
            }
            let ts = p.get("timestamp").and_then(|x| x.as_u64()).unwrap_or(0);
            let sent = p.get("hash").and_then(|x| x.as_str()).unwrap_or("").to_string();
            let stored = if sent == zero32() { gen_hash(rec.height) } else { sent };
            for (k, rc) in receipts.iter().enumerate() {
                // deposits and withdrawals run as the indexer address
                if (r.call.method == "brc20_deposit" || r.call.method == "brc20_withdraw") && rc["from"].as_str().map(|x| x.to_lowercase()) != Some("0x0000000000000000000000000000000000003ca6".into()) {
                    bad.push(("deposit-sender".into(), format!("{} executed as {}", r.call.method, rc["from"])));
                }
                if hexu(&rc["blockNumber"]) != Some(rec.height) || rc["blockHash"].as_str() != Some(stored.as_str()) {
                    bad.push(("receipt-block".into(), format!("receipt of {} says block {} / {} but block {} / {} was being built", r.call.method, rc["blockNumber"], rc["blockHash"], rec.height, stored)));
                }
                if rc["contractAddress"].as_str().map(|x| x.to_lowercase()) == Some(ctx.clone()) {
                    deployed = true;
                }
                let to = rc["to"].as_str().map(|x| x.to_lowercase());
                let via_proxy = proxy.is_some() && to == proxy;
                if deployed && (to == Some(ctx.clone()) || via_proxy) && rc["status"].as_str() == Some("0x1") {
                    let own_txid = if k == 0 {
                        txid.clone()
                    } else {
                        signed.and_then(|(a, n)| parked.remove(&(addr_s(a), n + k as u64))).unwrap_or_else(|| "<unknown>".into())
                    };
                    let sender = rc["from"].as_str().unwrap_or("").to_lowercase();
                    last = Some(Exec { height: rec.height, ts, hash: stored.clone(), sender: sender.clone(), txid: own_txid, how: format!("{}{}{}", r.call.method, if k > 0 { " (drained)" } else { "" }, if via_proxy { " (nested)" } else { "" }), caller: if via_proxy { proxy.clone().unwrap_or_default() } else { sender } });
                } else if k > 0 {
                    if let Some((a, n)) = signed {
                        parked.remove(&(addr_s(a), n + k as u64));
                    }
                }
            }
        }
    }
    (last, bad)
}

fn hexu(v: &Value) -> Option<u64> {
    v.as_str().and_then(parse_hex_u64)
}

fn check_ctx(inst: &mut Inst, world: &World, prague: bool) -> Vec<(String, String)> {
    if world.count() != 0 {
        return Vec::new();
    }
    let (last, mut bad) = last_ctx_exec(world);
    let Some(e) = last else {
        bad.push(("note:no-ctx-execution".into(), String::new()));
        return bad;
    };
    bad.push((format!("note:ctx-execution.{}", e.how.replace(' ', "")), String::new()));
    let ctx = ctx_tgt().resolve().unwrap();
    let mut slot = |inst: &mut Inst, i: u64| -> String {
        let r = inst.call("eth_getStorageAt", json!([ctx, format!("0x{:x}", i)]));
        r.result().and_then(|x| x.as_str()).unwrap_or("").to_string()
    };
    let served_hash = |inst: &mut Inst, b: u64| -> String {
        let r = inst.call("eth_getBlockByNumber", json!([format!("{}", b), false]));
        r.result().and_then(|x| x["hash"].as_str().map(|s| s.to_string())).unwrap_or_else(zero32)
    };
    let n = e.height;
    let mut expect: Vec<(u64, &str, String)> = vec![
        (0, "NUMBER", word_u64(n)),
        (1, "TIMESTAMP", word_u64(e.ts)),
        (2, "PREVRANDAO", e.hash.clone()),
        (3, "CHAINID", word_u64(crate::inst::chain_id())),
        (4, "BASEFEE", word_u64(0)),
        (5, "GASPRICE", word_u64(0)),
        (6, "COINBASE", word_u64(0)),
        (7, "ORIGIN", word_of_addr(&e.sender)),
        (8, "CALLER", word_of_addr(&e.caller)),
        (18, "BLOCKHASH(n)", zero32()),
        (19, "BLOCKHASH(n+1)", zero32()),
    ];
    // the supplied hash is also the hash the block is served with
    let served = served_hash(inst, n);
    if served != e.hash {
        bad.push(("served-hash".into(), format!("block {} was built with hash {} but is served with {}", n, e.hash, served)));
    }
    for (s, k) in [(9u64, 1u64), (10, 2), (11, 256), (12, 257)] {
        let want = if k <= n && k <= 256 { served_hash(inst, n - k) } else { zero32() };
        expect.push((s, match k { 1 => "BLOCKHASH(n-1)", 2 => "BLOCKHASH(n-2)", 256 => "BLOCKHASH(n-256)", _ => "BLOCKHASH(n-257)" }, want));
    }
    if prague {
        expect.push((13, "0xfa success", word_u64(1)));
        expect.push((14, "0xfa answer", e.txid.clone()));
        expect.push((17, "0xfa returndatasize", word_u64(32)));
    } else {
        // before Prague the helper does not exist: a call to an empty account
        expect.push((13, "0xfa success", word_u64(1)));
        expect.push((14, "0xfa answer", word_u64(0)));
        expect.push((17, "0xfa returndatasize", word_u64(0)));
    }
    for (s, name, want) in expect {
        let got = slot(inst, s);
        if got.to_lowercase() != want.to_lowercase() {
            bad.push((format!("context-{}", name.split('(').next().unwrap_or(name).replace(' ', "-")), format!("{} seen by the contract in block {} ({}, sender {}) = {} but the indexer supplied {}", name, n, e.how, e.sender, got, want)));
        }
    }
    bad
}

/// Activation heights of the Prague rules as documented in the README ("only usable after block
/// 275_000 on Signet, and 923_369 on Mainnet"), read as "from that height on" like the crate's own
/// signet tests do.
pub fn prague_in_force(network: &str, height: u64) -> bool {
    match network {
        "mainnet" | "bitcoin" => height >= 923_369,
        "signet" => height >= 275_000,
        _ => true,
    }
}

/// Child process: one linear history across the activation height of `network`.
pub fn boundary_main(network: &str) {
    crate::inst::set_config(network, true);
    let act: u64 = if network == "signet" { 275_000 } else { 923_369 };
    let mut inst = Inst::fresh();
    let mut bad: Vec<(String, String)> = Vec::new();
    let mut checked = Vec::new();
    // genesis + S + Ctx, then idle blocks up to three below the activation height (committed in chunks)
    let mut w = World::new();
    for s in start_with_s() {
        w.exec(&mut inst, &s);
    }
    for s in block(vec![TxSpec::Deploy { pk: 1, code: crate::asm::ctx_initcode(), len: DEFAULT_LEN }]) {
        w.exec(&mut inst, &s);
    }
    let mut h = w.h.unwrap();
    let target = act - 3;
    while h < target {
        let n = (target - h).min(50_000);
        let r = inst.call("brc20_mine", json!([n, 1_700_000_000u64]));
        if !r.is_ok() {
            bad.push(("machinery".into(), format!("mining towards the activation height failed: {:?}", r.err_msg())));
            break;
        }
        h += n;
        inst.call("brc20_commitToDatabase", json!([]));
    }
    // the automaton continues from here; earlier idle blocks are not needed by the oracle
    w.h = Some(h);
    w.max_ever = Some(h);
    w.uni.max_height = h;
    let call_ctx = |pk: u8| TxSpec::Call { pk, tgt: ctx_tgt(), data: vec![0], len: DEFAULT_LEN };
    let t_ctx = |n: u64| TxSpec::Transact { signer: 0, nonce: n, tgt: ctx_tgt(), data: vec![n as u8], len: DEFAULT_LEN };
    // heights act-2 .. act+1: an inscription call, a signed transaction, a parked one drained in the next block
    let plan: Vec<Vec<TxSpec>> = vec![vec![call_ctx(0), t_ctx(1)], vec![t_ctx(0)], vec![call_ctx(2), t_ctx(3)], vec![t_ctx(2)], vec![call_ctx(0)]];
    for txs in plan {
        for tx in txs {
            w.exec(&mut inst, &Step::Tx(tx));
        }
        w.exec(&mut inst, &Step::Fin);
        let height = w.h.unwrap();
        let prague = prague_in_force(network, height);
        for (k, d) in check_ctx(&mut inst, &w, prague) {
            if !k.starts_with("note:") {
                bad.push((k, format!("{} at height {} ({}): {}", network, height, if prague { "Prague in force" } else { "before Prague" }, d)));
            } else {
                checked.push(format!("{}@{}:{}", network, height, k));
            }
        }
    }
    drop(inst);
    crate::inst::cleanup_scratch();
    println!("@@BOUNDARY {}", serde_json::to_string(&json!({"network": network, "activation": act, "violations": bad, "checked": checked})).unwrap());
}

/// Parent side: both networks with a documented activation height, one child process each.
pub fn boundary_pass() -> (Value, Vec<crate::explore::Violation>, Vec<String>) {
    let exe = std::env::current_exe().expect("exe");
    let children: Vec<(String, std::process::Child)> = ["signet", "mainnet"].iter().map(|n| (n.to_string(), std::process::Command::new(&exe).arg("c19-boundary").arg(n).stdout(std::process::Stdio::piped()).stderr(std::process::Stdio::null()).spawn().expect("spawn"))).collect();
    let mut vs = Vec::new();
    let mut errors = Vec::new();
    let mut report = serde_json::Map::new();
    for (net, ch) in children {
        let o = ch.wait_with_output().expect("wait");
        let so = String::from_utf8_lossy(&o.stdout).to_string();
        match so.lines().rev().find(|l| l.starts_with("@@BOUNDARY ")) {
            Some(l) => {
                let v: Value = serde_json::from_str(&l["@@BOUNDARY ".len()..]).unwrap_or(Value::Null);
                for x in v["violations"].as_array().cloned().unwrap_or_default() {
                    let (k, d) = (x[0].as_str().unwrap_or("").to_string(), x[1].as_str().unwrap_or("").to_string());
                    if k == "machinery" {
                        errors.push(d);
                    } else {
                        vs.push(crate::explore::Violation { property: "C19".into(), kind: k, scenario: "activation-boundary".into(), start: net.clone(), path: vec![format!("linear history across block {}", v["activation"])], steps: vec![], detail: d });
                    }
                }
                report.insert(net.clone(), json!({"activation_height": v["activation"], "context_checks": v["checked"].as_array().map(|a| a.len()).unwrap_or(0), "checked": v["checked"]}));
            }
            None => errors.push(format!("boundary pass for {} produced no result", net)),
        }
    }
    (Value::Object(report), vs, errors)
}

fn oracle(sc: &Scenario) -> Option<BoundaryOracle<'static>> {
    let prague = sc.network == "regtest";
    Some(Box::new(move |inst: &mut Inst, world: &World, _outs: &[StepOut]| {
        if world.desync {
            return Vec::new();
        }
        check_ctx(inst, world, prague)
    }))
}

pub fn oracle_factory() -> crate::hist::OracleFactory {
    oracle
}

pub fn scenarios(tier: &str) -> Vec<Scenario> {
    let thorough = tier == "thorough";
    let call_ctx = |pk: u8| TxSpec::Call { pk, tgt: ctx_tgt(), data: vec![0], len: DEFAULT_LEN };
    let t_ctx = |n: u64| TxSpec::Transact { signer: 0, nonce: n, tgt: ctx_tgt(), data: vec![n as u8], len: DEFAULT_LEN };
    let alpha = vec![
        mac("P(ts=0,zero-hash)", Kind::Growth, vec![Step::Params { ts: 0, zero_hash: true }]),
        mac("P(ts=2^32)", Kind::Growth, vec![Step::Params { ts: 1 << 32, zero_hash: false }]),
        mac("P(ts=2^64-1,zero-hash)", Kind::Growth, vec![Step::Params { ts: u64::MAX, zero_hash: true }]),
        m_block("B(call Ctx by p0)", vec![call_ctx(0)]),
        m_block("B(set, call Ctx by p2)", vec![s_set(0, 0, 1), call_ctx(2)]),
        // the probe as a later transaction of its block: after a deposit (which runs with a zero transaction
        // id), after a failed transaction, after another probe call with another sender and transaction id
        m_block("B(deposit, call Ctx by p0)", vec![TxSpec::Deposit { pk: 1, ticker: "ordi".into(), amount: "0x2".into() }, call_ctx(0)]),
        m_block("B(fail, call Ctx by p2)", vec![TxSpec::Call { pk: 1, tgt: Tgt::s(), data: vec![4], len: DEFAULT_LEN }, call_ctx(2)]),
        m_block("B(call Ctx by p0, call Ctx by p2)", vec![call_ctx(0), call_ctx(2)]),
        // the probe as a nested call (CALLER is the proxy, ORIGIN and the transaction id are the transaction's)
        m_block("B(set, call proxy->Ctx by p2)", vec![s_set(0, 0, 1), TxSpec::Call { pk: 2, tgt: proxy_tgt(), data: vec![0], len: DEFAULT_LEN }]),
        m_block("B(T(s0,n0->Ctx))", vec![t_ctx(0)]),
        m_block("B(T(s0,n1->Ctx))", vec![t_ctx(1)]),
        // the same payload (nonce, target, data) signed by another key: the sender is whoever signed it
        m_block("B(T(s1,n0->Ctx), the payload of T(s0,n0))", vec![TxSpec::Transact { signer: 1, nonce: 0, tgt: ctx_tgt(), data: vec![0], len: DEFAULT_LEN }]),
        m_block("B(deposit,withdraw)", vec![TxSpec::Deposit { pk: 1, ticker: "ordi".into(), amount: "0x5".into() }, TxSpec::Withdraw { pk: 1, ticker: "ordi".into(), amount: "0x1".into() }]),
        m_mine(1),
        m_mine(255),
        m_commit(0),
        m_reorg(1, RTarget::Back(1)),
    ];
    let mut base = start_with_s();
    let ctx_bytes = hex::decode(ctx_tgt().resolve().unwrap().trim_start_matches("0x")).unwrap();
    base.extend(block(vec![TxSpec::Deploy { pk: 1, code: crate::asm::ctx_initcode(), len: DEFAULT_LEN }, TxSpec::Deploy { pk: 3, code: crate::asm::initcode(&crate::asm::proxy_runtime(&ctx_bytes)), len: DEFAULT_LEN }]));
    let mut opts = Opts::new("C19", "context");
    opts.nf_compare = false;
    opts.err_unchanged = false;
    let mut v = Vec::new();
    for net in ["regtest", "signet", "mainnet"] {
        v.push(Scenario {
            name: format!("context-{}", net),
            opts: opts.clone(),
            starts: vec![("S and Ctx deployed".into(), base.clone())],
            alphabet: alpha.clone(),
            bounds: Bounds { depth: if thorough { 4 } else { 3 }, dev: vec![1, 1], dev_total: 2 },
            weight: 1.0,
            network: net.into(),
            traces: net != "signet",
        });
    }
    v
}
