//! C14 — the storage encoding is lossless, self-delimiting and order-preserving.
//! Bounded-exhaustive enumeration of per-type value grids (full product of per-field menus).
use crate::evidence::Evidence;
use crate::inst::panic_text;
use alloy::primitives::{Address, Bytes, FixedBytes, U256};
use brc20_prog::verif::types::*;
use brc20_prog::verif::{BlockHistoryCache, BlockHistoryCacheData};
use revm::state::Bytecode;
use serde_json::{json, Value};
use std::fmt::Debug;
use std::panic::{catch_unwind, AssertUnwindSafe};
use std::time::Instant;

#[derive(Default)]
struct Tally {
    types: Vec<Value>,
    evaluations: u64,
    distinct: u64,
    violations: Vec<(String, String)>,
    samples: Vec<Value>,
}

fn announce(name: &str) {
    use std::io::Write;
    println!("@@TYPE {}", name);
    let _ = std::io::stdout().flush();
}

fn check_codec<T: Encode + Decode + PartialEq + Debug + Clone>(t: &mut Tally, name: &str, values: &[T], pair_cap: usize) {
    announce(name);
    let mut evals = 0u64;
    let mut encs: Vec<Vec<u8>> = Vec::with_capacity(values.len());
    for v in values {
        let r = catch_unwind(AssertUnwindSafe(|| {
            let enc = v.encode_vec();
            let (d, used) = T::decode(&enc, 0).map_err(|e| format!("does not decode: {}", e))?;
            if d != *v {
                return Err(format!("decode(encode(v)) = {:?}", d));
            }
            if used != enc.len() {
                return Err(format!("decoding consumed {} of {} bytes", used, enc.len()));
            }
            // self-delimiting: trailing bytes are not touched
            let mut more = enc.clone();
            more.extend_from_slice(&[0xff, 0x00, 0xab]);
            let (d2, used2) = T::decode(&more, 0).map_err(|e| format!("does not decode with trailing bytes: {}", e))?;
            if d2 != *v || used2 != enc.len() {
                return Err(format!("with trailing bytes: consumed {} of {} and decoded {:?}", used2, enc.len(), d2));
            }
            Ok(enc)
        }));
        evals += 1;
        match r {
            Ok(Ok(enc)) => encs.push(enc),
            Ok(Err(e)) => {
                t.violations.push((format!("roundtrip-{}", name), format!("{}: value {:?}: {}", name, v, e)));
                encs.push(Vec::new());
            }
            Err(p) => {
                t.violations.push((format!("panic-{}", name), format!("{}: value {:?}: panicked: {}", name, v, panic_text(&p))));
                encs.push(Vec::new());
            }
        }
        if t.violations.len() > 20 {
            return;
        }
    }
    // concatenation: encode a ++ encode b decodes to (a, b)
    let n = values.len();
    let step = ((n * n) / pair_cap.max(1)).max(1);
    let mut k = 0usize;
    let mut pairs = 0u64;
    for i in 0..n {
        for j in 0..n {
            k += 1;
            if k % step != 0 {
                continue;
            }
            let mut cat = encs[i].clone();
            cat.extend_from_slice(&encs[j]);
            let r = catch_unwind(AssertUnwindSafe(|| {
                let (a, off) = T::decode(&cat, 0).map_err(|e| e.to_string())?;
                let (b, off2) = T::decode(&cat, off).map_err(|e| e.to_string())?;
                if a != values[i] || b != values[j] || off2 != cat.len() {
                    return Err(format!("decoded ({:?}, {:?}) consuming {} of {}", a, b, off2, cat.len()));
                }
                Ok(())
            }));
            pairs += 1;
            if let Ok(Err(e)) | Err(e) = r.map_err(|p| panic_text(&p)) {
                t.violations.push((format!("concat-{}", name), format!("{}: {:?} ++ {:?}: {}", name, values[i], values[j], e)));
                if t.violations.len() > 20 {
                    return;
                }
            }
        }
    }
    let mut distinct = encs.clone();
    distinct.sort();
    distinct.dedup();
    t.evaluations += evals + pairs;
    t.distinct += distinct.len() as u64;
    t.types.push(json!({"type": name, "values": n, "distinct_encodings": distinct.len(), "concatenated_pairs": pairs, "exhaustive_pairs": step == 1}));
    if t.samples.len() < 12 && n > 0 {
        t.samples.push(json!({"type": name, "value": format!("{:?}", values[n / 2]).chars().take(300).collect::<String>(), "encoding": hex::encode(&encs[n / 2]).chars().take(200).collect::<String>()}));
    }
}

fn check_order<T: Encode + Ord + Debug>(t: &mut Tally, name: &str, keys: &[T]) {
    let encs: Vec<Vec<u8>> = keys.iter().map(|k| k.encode_vec()).collect();
    let mut pairs = 0u64;
    for i in 0..keys.len() {
        for j in 0..keys.len() {
            pairs += 1;
            if keys[i].cmp(&keys[j]) != encs[i].cmp(&encs[j]) {
                t.violations.push((format!("order-{}", name), format!("{}: {:?} vs {:?}: values compare {:?}, encodings compare {:?}", name, keys[i], keys[j], keys[i].cmp(&keys[j]), encs[i].cmp(&encs[j]))));
                if t.violations.len() > 20 {
                    return;
                }
            }
        }
    }
    t.evaluations += pairs;
    t.types.push(json!({"ordering": name, "keys": keys.len(), "pairs": pairs, "exhaustive_pairs": true}));
}

fn check_json<T: serde::Serialize + serde::de::DeserializeOwned + Debug>(t: &mut Tally, name: &str, values: &[T]) {
    announce(&format!("{} (JSON)", name));
    let mut n = 0u64;
    for v in values {
        let r = catch_unwind(AssertUnwindSafe(|| {
            let s1 = serde_json::to_string(v).map_err(|e| e.to_string())?;
            let d: T = serde_json::from_str(&s1).map_err(|e| format!("{} does not deserialise: {}", s1.chars().take(300).collect::<String>(), e))?;
            let s2 = serde_json::to_string(&d).map_err(|e| e.to_string())?;
            if s1 != s2 {
                return Err(format!("JSON changes: {} -> {}", s1.chars().take(400).collect::<String>(), s2.chars().take(400).collect::<String>()));
            }
            Ok(())
        }));
        n += 1;
        if let Ok(Err(e)) | Err(e) = r.map_err(|p| format!("panicked: {}", panic_text(&p))) {
            t.violations.push((format!("json-{}", name), format!("{}: {}", name, e)));
            if t.violations.len() > 20 {
                return;
            }
        }
    }
    t.evaluations += n;
    t.types.push(json!({"json": name, "values": n}));
}

fn product<T: Clone>(base: Vec<T>, f: &dyn Fn(&T) -> Vec<T>) -> Vec<T> {
    base.iter().flat_map(|b| f(b)).collect()
}

fn u64s() -> Vec<u64> {
    vec![0, 1, 255, 256, 1 << 32, 1 << 63, u64::MAX]
}

fn b256s() -> Vec<B256ED> {
    vec![[0u8; 32].into(), [0xffu8; 32].into(), {
        let mut b = [0u8; 32];
        b[31] = 1;
        b.into()
    }]
}

fn addrs() -> Vec<AddressED> {
    vec![[0u8; 20].into(), [0xffu8; 20].into(), [0x11u8; 20].into()]
}

fn byteses() -> Vec<Vec<u8>> {
    vec![vec![], vec![0], vec![7; 31], vec![8; 32], vec![9; 33], (0..65536u32).map(|i| (i % 251) as u8).collect()]
}

fn logs(i: usize) -> Vec<LogED> {
    let mk = |nt: usize, data: Vec<u8>, idx: u64| LogED {
        address: [0x22u8; 20].into(),
        topics: (0..nt).map(|k| B256ED::from([k as u8 + 1; 32])).collect(),
        data: data.into(),
        transaction_index: idx.into(),
        transaction_hash: [3u8; 32].into(),
        block_hash: [4u8; 32].into(),
        block_number: 9u64.into(),
        log_index: (idx + 1).into(),
    };
    match i {
        0 => vec![],
        1 => vec![mk(0, vec![], 0)],
        _ => vec![mk(4, vec![1; 33], 1), mk(1, vec![], u64::MAX - 1)],
    }
}

fn traces(depth: usize) -> Vec<TraceED> {
    let leaf = |ty: &str, to: Option<AddressED>, err: Option<String>| TraceED {
        tx_type: ty.to_string(),
        from: [1u8; 20].into(),
        to,
        calls: vec![],
        gas: U256::from(5u64).into(),
        gas_used: U256::MAX.into(),
        input: vec![1, 2].into(),
        output: Vec::<u8>::new().into(),
        value: U256::ZERO.into(),
        error: err,
        revert_reason: None,
    };
    let mut level: Vec<TraceED> = vec![leaf("CALL", Some([2u8; 20].into()), None), leaf("CREATE", None, Some("execution reverted".into()))];
    for _ in 0..depth {
        let mut parent = leaf("CALL", Some([3u8; 20].into()), None);
        parent.calls = level.clone();
        parent.revert_reason = Some("why".into());
        level = vec![parent.clone(), parent];
    }
    level
}

/// Histories of the pinned corpus on a real instance: every answer of a method with a typed result is
/// deserialised into that type and serialised again; the JSON value must be the one the server sent.
fn real_data_pass(t: &mut Tally) {
    use crate::inst::Inst;
    use crate::world::World;
    use std::collections::HashMap;
    fn rt<T: serde::Serialize + serde::de::DeserializeOwned>(v: &Value) -> Result<(), String> {
        let d: T = serde_json::from_value(v.clone()).map_err(|e| format!("does not deserialise: {}", e))?;
        let back = serde_json::to_value(&d).map_err(|e| e.to_string())?;
        if &back != v {
            return Err(format!("re-serialises as {}", back.to_string().chars().take(500).collect::<String>()));
        }
        Ok(())
    }
    let mut inst = Inst::fresh();
    let mut n = 0u64;
    let mut by_type: std::collections::BTreeMap<&str, u64> = Default::default();
    for (name, steps) in super::golden::corpus() {
        inst.wipe();
        let mut w = World::new();
        for s in &steps {
            w.exec(&mut inst, s);
        }
        let mut check = |what: &'static str, m: &str, p: Value, f: &dyn Fn(&Value) -> Result<(), String>, inst: &mut Inst, t: &mut Tally| {
            let r = inst.call(m, p.clone());
            let Some(v) = r.result() else { return };
            if v.is_null() {
                return;
            }
            n += 1;
            *by_type.entry(what).or_insert(0) += 1;
            if let Err(e) = f(v) {
                if t.violations.len() < 20 {
                    t.violations.push((format!("json-served-{}", what), format!("history {}: {} {} answered {} which {}", name, m, p, v.to_string().chars().take(500).collect::<String>(), e)));
                }
            }
        };
        for b in 0..=w.uni.max_height {
            check("BlockResponseED", "eth_getBlockByNumber", json!([format!("{}", b), false]), &rt::<BlockResponseED>, &mut inst, t);
            check("BlockResponseED(full)", "eth_getBlockByNumber", json!([format!("{}", b), true]), &rt::<BlockResponseED>, &mut inst, t);
            check("Vec<LogED>", "eth_getLogs", json!([{"fromBlock": format!("{}", b), "toBlock": format!("{}", b)}]), &rt::<Vec<LogED>>, &mut inst, t);
            for i in 0..4u64 {
                check("TxED", "eth_getTransactionByBlockNumberAndIndex", json!([b, i]), &rt::<TxED>, &mut inst, t);
            }
        }
        for h in w.uni.h32.clone() {
            check("TxED", "eth_getTransactionByHash", json!([h]), &rt::<TxED>, &mut inst, t);
            check("TxReceiptED", "eth_getTransactionReceipt", json!([h]), &rt::<TxReceiptED>, &mut inst, t);
            check("TraceED", "debug_traceTransaction", json!([h]), &rt::<TraceED>, &mut inst, t);
            check("BlockResponseED", "eth_getBlockByHash", json!([h, true]), &rt::<BlockResponseED>, &mut inst, t);
        }
        for i in w.uni.inscs.clone() {
            check("TxReceiptED", "brc20_getTxReceiptByInscriptionId", json!([i]), &rt::<TxReceiptED>, &mut inst, t);
        }
        for a in w.uni.addrs.clone() {
            check("BytecodeED", "eth_getCode", json!([a]), &rt::<BytecodeED>, &mut inst, t);
            check("txpool", "txpool_contentFrom", json!([a]), &rt::<HashMap<String, HashMap<AddressED, HashMap<u64, TxED>>>>, &mut inst, t);
        }
        check("txpool", "txpool_content", json!([]), &rt::<HashMap<String, HashMap<AddressED, HashMap<u64, TxED>>>>, &mut inst, t);
    }
    t.evaluations += n;
    t.types.push(json!({"json_of_served_answers": by_type, "values": n}));
    drop(inst);
    crate::inst::cleanup_scratch();
}

/// The grids run in a child process: a decoder that reads a length prefix from the wrong place can ask for an
/// allocation that aborts the process, which must be a verdict and not a dead check.
pub fn run(tier: &str, seed: u64) -> i32 {
    if std::env::var("VMC_C14_CHILD").is_ok() {
        return run_grids(tier, seed);
    }
    let t0 = Instant::now();
    let exe = std::env::current_exe().expect("exe");
    let out = std::process::Command::new(exe).arg("check").arg("C14").arg(tier).env("VMC_C14_CHILD", "1").stderr(std::process::Stdio::inherit()).output();
    let out = match out {
        Ok(o) => o,
        Err(e) => {
            eprintln!("MACHINERY-ERROR: cannot start the grid process: {}", e);
            return 3;
        }
    };
    let text = String::from_utf8_lossy(&out.stdout).to_string();
    for l in text.lines().filter(|l| !l.starts_with("@@TYPE ")) {
        println!("{}", l);
    }
    match out.status.code() {
        Some(c) if c == 0 || c == 1 || c == 3 => c,
        other => {
            // killed by a signal / aborted: the type that was being processed is the last one announced
            let last = text.lines().rev().find_map(|l| l.strip_prefix("@@TYPE ")).unwrap_or("<before the first type>").to_string();
            let v = crate::explore::Violation { property: "C14".into(), kind: format!("abort-{}", last), scenario: "codec".into(), start: "".into(), path: vec![last.clone()], steps: vec![], detail: format!("the process died (status {:?}) while values of type {} were being encoded / decoded: a decoder asked for an impossible allocation or overflowed the stack", other, last) };
            let mut ev = Evidence::new("C14", tier, seed, "exploration");
            ev.coverage = json!({"evaluations": 0, "distinct_nontrivial": 0, "rule": "stopped: the grid process died", "samples": [], "types": [], "died_at": last});
            ev.violations = 1;
            ev.wall_s = t0.elapsed().as_secs_f64();
            ev.write();
            println!("VIOLATION property=C14 replay={}", crate::evidence::write_replay(&v));
            println!("  {} {}", v.kind, v.detail);
            1
        }
    }
}

fn run_grids(tier: &str, seed: u64) -> i32 {
    let t0 = Instant::now();
    let mut t = Tally::default();
    let thorough = tier == "thorough";
    let cap = if thorough { 400_000 } else { 40_000 };
    // chain id of the configuration is part of what TxED reconstructs on decode
    crate::inst::set_config("regtest", true);
    let chain = crate::inst::chain_id();

    // --- primitives ---
    check_codec(&mut t, "u8", &[0u8, 1, 127, 255], cap);
    check_codec(&mut t, "u32", &[0u32, 1, 255, 256, u32::MAX], cap);
    check_codec(&mut t, "u64", &u64s(), cap);
    check_codec(&mut t, "String", &["".to_string(), "a".to_string(), "é✓".to_string(), "x".repeat(65536)], cap);
    check_codec(&mut t, "Vec<u8>", &byteses(), cap);
    check_codec(&mut t, "Vec<String>", &[vec![], vec!["".to_string()], vec!["a".to_string(), "bc".to_string()]], cap);
    check_codec(&mut t, "Option<u64>", &[None, Some(0u64), Some(u64::MAX)], cap);
    check_codec(&mut t, "Option<Option<Vec<u8>>>", &[None, Some(None), Some(Some(Vec::<u8>::new())), Some(Some(vec![1u8, 2, 3]))], cap);
    check_codec(&mut t, "Vec<Option<Vec<u8>>>", &[vec![], vec![None], vec![Some(Vec::<u8>::new()), None, Some(vec![9u8; 33])]], cap);
    check_codec(&mut t, "[u8;4]", &[[0u8; 4], [1, 2, 3, 4], [255; 4]], cap);
    check_codec(&mut t, "(u64,String)", &u64s().iter().flat_map(|a| ["", "k"].iter().map(move |s| (*a, s.to_string()))).collect::<Vec<_>>(), cap);
    // --- integers and fixed bytes ---
    let u64ed: Vec<U64ED> = u64s().into_iter().map(U64ED::from).collect();
    check_codec(&mut t, "U8ED", &[0u8, 1, 255].map(U8ED::from), cap);
    check_codec(&mut t, "U64ED", &u64ed, cap);
    let u128ed: Vec<U128ED> = u64s().iter().flat_map(|b| u64s().into_iter().map(move |i| U128ED::from(((*b as u128) << 64) | i as u128))).collect();
    check_codec(&mut t, "U128ED(block,index)", &u128ed, cap);
    let u256s: Vec<U256> = vec![U256::ZERO, U256::from(1u64), U256::from(u64::MAX), U256::from(u64::MAX) + U256::from(1u64), U256::MAX >> 1, U256::MAX];
    check_codec(&mut t, "U256ED", &u256s.iter().map(|u| U256ED::from(*u)).collect::<Vec<_>>(), cap);
    let u512: Vec<U512ED> = [[0u8; 20], [0x11; 20], [0xff; 20]]
        .iter()
        .flat_map(|a| {
            u256s.iter().map(move |s| {
                let mut b = [0u8; 64];
                b[..20].copy_from_slice(a);
                b[32..].copy_from_slice(&s.to_be_bytes::<32>());
                U512ED::new(alloy::primitives::Uint::<512, 8>::from_be_bytes(b))
            })
        })
        .collect();
    check_codec(&mut t, "U512ED(address,slot)", &u512, cap);
    check_codec(&mut t, "B256ED", &b256s(), cap);
    check_codec(&mut t, "B2048ED", &[B2048ED::from([0u8; 256]), B2048ED::from([0xffu8; 256]), B2048ED::from(FixedBytes::<256>::with_last_byte(1))], cap);
    check_codec(&mut t, "AddressED", &addrs(), cap);
    let pool_keys: Vec<(AddressED, U64ED)> = addrs().iter().flat_map(|a| u64ed.iter().map(move |n| (*a, *n))).collect();
    check_codec(&mut t, "(AddressED,U64ED)", &pool_keys, cap);
    check_codec(&mut t, "BytesED", &byteses().into_iter().map(BytesED::from).collect::<Vec<_>>(), cap);
    let codes: Vec<BytecodeED> = vec![vec![], vec![0x00], vec![0x60, 0x00, 0x60, 0x00, 0xf3], vec![0x5b; 24576], {
        let mut d = vec![0xef, 0x01, 0x00];
        d.extend_from_slice(&[0x33; 20]);
        d
    }]
    .into_iter()
    .map(|b| BytecodeED::from(Bytecode::new_raw(Bytes::from(b))))
    .collect();
    check_codec(&mut t, "BytecodeED", &codes, cap);
    let accts: Vec<AccountInfoED> = u256s.iter().flat_map(|b| u64ed.iter().flat_map(move |n| b256s().into_iter().map(move |c| AccountInfoED { balance: U256ED::from(*b), nonce: *n, code_hash: c }))).collect();
    check_codec(&mut t, "AccountInfoED", &accts, cap);
    // --- logs ---
    let mut lg: Vec<LogED> = Vec::new();
    for nt in [0usize, 1, 4] {
        for data in [vec![], vec![1u8], vec![2; 32], vec![3; 33]] {
            for bits in 0..64u32 {
                let f = |k: u32| bits & (1 << k) != 0;
                lg.push(LogED {
                    address: if f(0) { [0u8; 20].into() } else { [0xeeu8; 20].into() },
                    topics: (0..nt).map(|k| B256ED::from([k as u8 + 1; 32])).collect(),
                    data: data.clone().into(),
                    transaction_index: if f(1) { 0u64.into() } else { u64::MAX.into() },
                    transaction_hash: if f(2) { [0u8; 32].into() } else { [0xaau8; 32].into() },
                    block_hash: if f(3) { [0u8; 32].into() } else { [0xbbu8; 32].into() },
                    block_number: if f(4) { 0u64.into() } else { (1u64 << 40).into() },
                    log_index: if f(5) { 0u64.into() } else { 77u64.into() },
                });
            }
        }
    }
    check_codec(&mut t, "LogED", &lg, cap);
    check_json(&mut t, "LogED", &lg);
    // --- transactions: full product of a 2-value menu over the 13 persisted fields ---
    let mut txs: Vec<TxED> = Vec::new();
    for bits in 0..(1u32 << 13) {
        let f = |k: u32| bits & (1 << k) != 0;
        txs.push(TxED {
            hash: if f(0) { [0u8; 32].into() } else { [0x12u8; 32].into() },
            nonce: if f(1) { 0u64.into() } else { u64::MAX.into() },
            block_hash: if f(2) { [0u8; 32].into() } else { [0x34u8; 32].into() },
            block_number: if f(3) { None } else { Some(7u64.into()) },
            transaction_index: if f(4) { None } else { Some(u64::MAX.into()) },
            from: if f(5) { [0u8; 20].into() } else { [0x56u8; 20].into() },
            to: if f(6) { None } else { Some([0x78u8; 20].into()) },
            value: 0u64.into(),
            gas: if f(7) { 0u64.into() } else { u64::MAX.into() },
            gas_price: 0u64.into(),
            input: if f(8) { Vec::<u8>::new().into() } else { vec![0xab; 33].into() },
            v: if f(9) { 0u8.into() } else { 1u8.into() },
            r: if f(10) { U256::ZERO.into() } else { U256::MAX.into() },
            s: if f(11) { U256::ZERO.into() } else { U256::from(5u64).into() },
            chain_id: chain.into(),
            tx_type: 0u8.into(),
            inscription_id: if f(12) { None } else { Some("abc…i0".to_string()) },
        });
    }
    check_codec(&mut t, "TxED", &txs, cap);
    check_json(&mut t, "TxED", &txs[..512.min(txs.len())]);
    // --- receipts ---
    let mut rcs: Vec<TxReceiptED> = Vec::new();
    for li in 0..3usize {
        for bits in 0..(1u32 << 11) {
            let f = |k: u32| bits & (1 << k) != 0;
            rcs.push(TxReceiptED {
                status: if f(0) { 0u8.into() } else { 1u8.into() },
                logs: logs(li),
                gas_used: if f(1) { 0u64.into() } else { u64::MAX.into() },
                from: if f(2) { [0u8; 20].into() } else { [0x56u8; 20].into() },
                to: if f(3) { None } else { Some([0x78u8; 20].into()) },
                contract_address: if f(4) { None } else { Some([0x9au8; 20].into()) },
                logs_bloom: if f(5) { B2048ED::from([0u8; 256]) } else { B2048ED::from([0xf0u8; 256]) },
                block_hash: if f(6) { [0u8; 32].into() } else { [0x34u8; 32].into() },
                block_number: if f(7) { 0u64.into() } else { u64::MAX.into() },
                transaction_hash: if f(8) { [0u8; 32].into() } else { [0x12u8; 32].into() },
                transaction_index: if f(9) { 0u64.into() } else { 3u64.into() },
                cumulative_gas_used: if f(10) { 0u64.into() } else { u64::MAX.into() },
                effective_gas_price: 0u64.into(),
                transaction_type: 0u8.into(),
            });
        }
    }
    check_codec(&mut t, "TxReceiptED", &rcs, cap);
    check_json(&mut t, "TxReceiptED", &rcs[..512]);
    // --- traces, nested 0..2 deep ---
    let mut trs: Vec<TraceED> = Vec::new();
    for d in 0..3 {
        for base in traces(d) {
            for bits in 0..(1u32 << 6) {
                let f = |k: u32| bits & (1 << k) != 0;
                let mut x = base.clone();
                x.gas = if f(0) { U256::ZERO.into() } else { U256::MAX.into() };
                x.input = if f(1) { Vec::<u8>::new().into() } else { vec![1u8; 65].into() };
                x.output = if f(2) { Vec::<u8>::new().into() } else { vec![2u8; 32].into() };
                x.value = if f(3) { U256::ZERO.into() } else { U256::from(9u64).into() };
                x.error = if f(4) { None } else { Some("".into()) };
                x.revert_reason = if f(5) { None } else { Some("reason ✓".into()) };
                trs.push(x);
            }
        }
    }
    check_codec(&mut t, "TraceED", &trs, cap);
    check_json(&mut t, "TraceED", &trs);
    // --- blocks with 0..3 transactions ---
    let mut blks: Vec<BlockResponseED> = Vec::new();
    let template: BlockResponseED = {
        // decode a zero block to obtain the constants the module fills in
        let mut enc = Vec::new();
        for _ in 0..3 {
            U64ED::zero().encode(&mut enc);
        }
        B256ED::from([0u8; 32]).encode(&mut enc);
        B2048ED::from([0u8; 256]).encode(&mut enc);
        for _ in 0..3 {
            U64ED::zero().encode(&mut enc);
        }
        U128ED::from(0u64).encode(&mut enc);
        Vec::<B256ED>::new().encode(&mut enc);
        B256ED::from([0u8; 32]).encode(&mut enc);
        U64ED::zero().encode(&mut enc);
        B256ED::from([0u8; 32]).encode(&mut enc);
        B256ED::from([0u8; 32]).encode(&mut enc);
        U64ED::zero().encode(&mut enc);
        BlockResponseED::decode_vec(&enc).expect("template block")
    };
    for ntx in 0..4usize {
        for bits in 0..(1u32 << 9) {
            let f = |k: u32| bits & (1 << k) != 0;
            let mut b = template.clone();
            b.gas_used = if f(0) { 0u64.into() } else { u64::MAX.into() };
            b.hash = if f(1) { [0u8; 32].into() } else { [0x34u8; 32].into() };
            b.logs_bloom = if f(2) { B2048ED::from([0u8; 256]) } else { B2048ED::from([0x0fu8; 256]) };
            b.nonce = if f(3) { 0u64.into() } else { 3u64.into() };
            b.number = if f(4) { 0u64.into() } else { u64::MAX.into() };
            b.timestamp = if f(5) { 0u64.into() } else { (1u64 << 32).into() };
            b.mine_timestamp = if f(6) { U128ED::from(0u64) } else { U128ED::from(u128::MAX) };
            b.transactions = either::Either::Left((0..ntx).map(|k| B256ED::from([k as u8 + 1; 32])).collect());
            b.transactions_root = if f(7) { [0u8; 32].into() } else { [0x77u8; 32].into() };
            b.parent_hash = if f(8) { [0u8; 32].into() } else { [0x88u8; 32].into() };
            blks.push(b);
        }
    }
    check_codec(&mut t, "BlockResponseED", &blks, cap);
    let mut jb: Vec<BlockResponseED> = blks.iter().step_by(37).cloned().collect();
    let mut full = blks[700].clone();
    full.transactions = either::Either::Right(txs.iter().step_by(1500).cloned().collect());
    jb.push(full);
    check_json(&mut t, "BlockResponseED", &jb);
    // --- raw blocks (RLP) built from the JSON forms ---
    let raws: Vec<RawBlock> = blks.iter().step_by(97).map(|b| RawBlock::new(b.clone(), txs.iter().step_by(2048).cloned().collect(), rcs.iter().step_by(1700).cloned().collect())).collect();
    check_codec(&mut t, "RawBlock", &raws, cap);
    // --- histories ---
    let mut hs: Vec<Vec<u8>> = Vec::new();
    for writes in 0..5u64 {
        let mut h = BlockHistoryCacheData::<U64ED>::new(if writes % 2 == 0 { None } else { Some(5u64.into()) });
        for w in 0..writes {
            if w % 3 == 2 {
                h.unset(10 + w * 4);
            } else {
                h.set(10 + w * 4, (w + 1).into());
            }
        }
        let enc = h.encode_vec();
        match BlockHistoryCacheData::<U64ED>::decode(&enc, 0) {
            Ok((d, used)) => {
                if d.encode_vec() != enc || used != enc.len() || d.latest() != h.latest() {
                    t.violations.push(("roundtrip-BlockHistoryCacheData".into(), format!("history of {} writes re-encodes differently", writes)));
                }
            }
            Err(e) => t.violations.push(("roundtrip-BlockHistoryCacheData".into(), format!("history of {} writes does not decode: {}", writes, e))),
        }
        hs.push(enc);
    }
    // histories with repeated values: a key written twice within one block and back to what it held (the entry of
    // the current block is overwritten in place, so {1:A, 2:A} is an ordinary history), a key set and removed within
    // one block ({0:None, n:None}), and the same three blocks later
    {
        let shapes: Vec<(&str, Vec<(u64, Option<u64>)>)> = vec![
            ("A, then B and back to A within block 2", vec![(1, Some(7)), (2, Some(8)), (2, Some(7))]),
            ("set and removed within block 5", vec![(5, Some(7)), (5, None)]),
            ("A, removed and set to A again within block 3", vec![(1, Some(7)), (3, None), (3, Some(7))]),
            ("A, B/A within block 2, C in block 5", vec![(1, Some(7)), (2, Some(8)), (2, Some(7)), (5, Some(9))]),
            ("removed twice", vec![(1, Some(7)), (2, None), (4, Some(7)), (4, None)]),
        ];
        for (name, writes) in shapes {
            for initial in [None, Some(U64ED::from(7u64))] {
                let mut h = BlockHistoryCacheData::<U64ED>::new(initial);
                for (b, v) in &writes {
                    match v {
                        Some(v) => h.set(*b, (*v).into()),
                        None => h.unset(*b),
                    }
                }
                let enc = h.encode_vec();
                let ok = BlockHistoryCacheData::<U64ED>::decode(&enc, 0).map(|(d, used)| d.encode_vec() == enc && used == enc.len() && d.latest() == h.latest()).unwrap_or(false);
                t.evaluations += 1;
                if !ok {
                    t.violations.push(("roundtrip-BlockHistoryCacheData".into(), format!("history '{}' (initial value {:?}, {} bytes) does not come back from its encoding unchanged", name, initial.map(|x| x.uint), enc.len())));
                }
                hs.push(enc);
            }
        }
    }
    t.evaluations += hs.len() as u64;
    t.types.push(json!({"type": "BlockHistoryCacheData<U64ED>", "values": hs.len()}));
    // --- ordering law on every key type used for range scans / last-key lookups ---
    check_order(&mut t, "U64ED", &u64ed);
    check_order(&mut t, "u64", &u64s());
    let mut dense: Vec<U128ED> = u128ed.clone();
    for b in [0u128, 1, 2, 255, 256, 257] {
        for i in [0u128, 1, 255, 256] {
            dense.push(U128ED::from((b << 64) | i));
        }
    }
    check_order(&mut t, "U128ED(block,index)", &dense);
    check_order(&mut t, "U512ED(address,slot)", &u512);
    let mut pk = pool_keys.clone();
    pk.sort_by(|a, b| (a.0.address, a.1).cmp(&(b.0.address, b.1)));
    // (AddressED, U64ED) has no Ord of its own: compare as (address bytes, nonce)
    let pk_ord: Vec<(Address, U64ED)> = pk.iter().map(|(a, n)| (a.address, *n)).collect();
    let encs: Vec<Vec<u8>> = pk.iter().map(|k| k.encode_vec()).collect();
    let mut pairs = 0u64;
    for i in 0..pk.len() {
        for j in 0..pk.len() {
            pairs += 1;
            if pk_ord[i].cmp(&pk_ord[j]) != encs[i].cmp(&encs[j]) {
                t.violations.push(("order-(AddressED,U64ED)".into(), format!("{:?} vs {:?}", pk[i], pk[j])));
            }
        }
    }
    t.evaluations += pairs;
    t.types.push(json!({"ordering": "(AddressED,U64ED)", "keys": pk.len(), "pairs": pairs, "exhaustive_pairs": true}));
    // --- JSON of the small API types ---
    check_json(&mut t, "U64ED", &u64ed);
    check_json(&mut t, "U256ED", &u256s.iter().map(|u| U256ED::from(*u)).collect::<Vec<_>>());
    check_json(&mut t, "B256ED", &b256s());
    check_json(&mut t, "AddressED", &addrs());
    check_json(&mut t, "BytesED", &byteses().into_iter().take(5).map(BytesED::from).collect::<Vec<_>>());
    check_json(&mut t, "BytecodeED", &codes);

    // --- one field at a time over richer menus (zero / all-ones / lowest bit / highest bit for addresses and
    // hashes, the boundary integers, every Option both ways), on top of two base values per type ---
    {
        let addr_menu: Vec<AddressED> = vec![[0u8; 20].into(), [0xffu8; 20].into(), { let mut a = [0u8; 20]; a[19] = 1; a.into() }, { let mut a = [0u8; 20]; a[0] = 0x80; a.into() }];
        let hash_menu: Vec<B256ED> = vec![[0u8; 32].into(), [0xffu8; 32].into(), { let mut a = [0u8; 32]; a[31] = 1; a.into() }, { let mut a = [0u8; 32]; a[0] = 0x80; a.into() }];
        let int_menu: Vec<u64> = u64s();
        let big_menu: Vec<U256> = u256s.clone();
        let str_menu: Vec<Option<String>> = vec![None, Some(String::new()), Some("é✓".into()), Some(format!("{}i0", "ab".repeat(32)))];
        // TxED
        let mut v: Vec<TxED> = Vec::new();
        for base in [txs[0].clone(), txs[txs.len() - 1].clone()] {
            for a in &hash_menu { let mut x = base.clone(); x.hash = *a; v.push(x); let mut x = base.clone(); x.block_hash = *a; v.push(x); }
            for a in &addr_menu { let mut x = base.clone(); x.from = *a; v.push(x); let mut x = base.clone(); x.to = Some(*a); v.push(x); }
            for i in &int_menu { let mut x = base.clone(); x.nonce = (*i).into(); v.push(x); let mut x = base.clone(); x.gas = (*i).into(); v.push(x); let mut x = base.clone(); x.block_number = Some((*i).into()); v.push(x); let mut x = base.clone(); x.transaction_index = Some((*i).into()); v.push(x); }
            for b in &big_menu { let mut x = base.clone(); x.r = (*b).into(); v.push(x); let mut x = base.clone(); x.s = (*b).into(); v.push(x); }
            for b in byteses() { let mut x = base.clone(); x.input = b.into(); v.push(x); }
            for st in &str_menu { let mut x = base.clone(); x.inscription_id = st.clone(); v.push(x); }
            let mut x = base.clone(); x.to = None; v.push(x);
            let mut x = base.clone(); x.block_number = None; x.transaction_index = None; v.push(x);
        }
        check_codec(&mut t, "TxED (one field at a time)", &v, cap);
        check_json(&mut t, "TxED (one field at a time)", &v);
        // TxReceiptED
        let mut v: Vec<TxReceiptED> = Vec::new();
        for base in [rcs[0].clone(), rcs[rcs.len() - 1].clone()] {
            for a in &hash_menu { let mut x = base.clone(); x.block_hash = *a; v.push(x); let mut x = base.clone(); x.transaction_hash = *a; v.push(x); }
            for a in &addr_menu { let mut x = base.clone(); x.from = *a; v.push(x); let mut x = base.clone(); x.to = Some(*a); v.push(x); let mut x = base.clone(); x.contract_address = Some(*a); v.push(x); }
            for i in &int_menu { let mut x = base.clone(); x.gas_used = (*i).into(); v.push(x); let mut x = base.clone(); x.block_number = (*i).into(); v.push(x); let mut x = base.clone(); x.transaction_index = (*i).into(); v.push(x); let mut x = base.clone(); x.cumulative_gas_used = (*i).into(); v.push(x); }
            let mut x = base.clone(); x.to = None; x.contract_address = None; v.push(x);
            for st in [0u8, 1] { let mut x = base.clone(); x.status = st.into(); v.push(x); }
        }
        check_codec(&mut t, "TxReceiptED (one field at a time)", &v, cap);
        check_json(&mut t, "TxReceiptED (one field at a time)", &v);
        // LogED
        let mut v: Vec<LogED> = Vec::new();
        for base in [lg[0].clone(), lg[lg.len() - 1].clone()] {
            for a in &addr_menu { let mut x = base.clone(); x.address = *a; v.push(x); }
            for a in &hash_menu { let mut x = base.clone(); x.transaction_hash = *a; v.push(x); let mut x = base.clone(); x.block_hash = *a; v.push(x); let mut x = base.clone(); x.topics = vec![*a]; v.push(x); let mut x = base.clone(); x.topics = vec![*a, hash_menu[0], *a, hash_menu[1]]; v.push(x); }
            for i in &int_menu { let mut x = base.clone(); x.transaction_index = (*i).into(); v.push(x); let mut x = base.clone(); x.block_number = (*i).into(); v.push(x); let mut x = base.clone(); x.log_index = (*i).into(); v.push(x); }
            for b in byteses() { let mut x = base.clone(); x.data = b.into(); v.push(x); }
        }
        check_codec(&mut t, "LogED (one field at a time)", &v, cap);
        check_json(&mut t, "LogED (one field at a time)", &v);
        // TraceED
        let mut v: Vec<TraceED> = Vec::new();
        for base in [trs[0].clone(), trs[trs.len() - 1].clone()] {
            for a in &addr_menu { let mut x = base.clone(); x.from = *a; v.push(x); let mut x = base.clone(); x.to = Some(*a); v.push(x); }
            let mut x = base.clone(); x.to = None; v.push(x);
            for b in &big_menu { let mut x = base.clone(); x.gas = (*b).into(); v.push(x); let mut x = base.clone(); x.gas_used = (*b).into(); v.push(x); let mut x = base.clone(); x.value = (*b).into(); v.push(x); }
            for b in byteses().into_iter().take(5) { let mut x = base.clone(); x.input = b.clone().into(); v.push(x); let mut x = base.clone(); x.output = b.into(); v.push(x); }
            for st in &str_menu { let mut x = base.clone(); x.error = st.clone(); v.push(x); let mut x = base.clone(); x.revert_reason = st.clone(); v.push(x); let mut x = base.clone(); x.tx_type = st.clone().unwrap_or_else(|| "STATICCALL".into()); v.push(x); }
        }
        check_codec(&mut t, "TraceED (one field at a time)", &v, cap);
        check_json(&mut t, "TraceED (one field at a time)", &v);
        // BlockResponseED
        let mut v: Vec<BlockResponseED> = Vec::new();
        for base in [blks[0].clone(), blks[blks.len() - 1].clone()] {
            for a in &hash_menu { let mut x = base.clone(); x.hash = *a; v.push(x); let mut x = base.clone(); x.parent_hash = *a; v.push(x); let mut x = base.clone(); x.transactions_root = *a; v.push(x); let mut x = base.clone(); x.transactions = either::Either::Left(vec![*a, hash_menu[1], *a]); v.push(x); }
            for i in &int_menu { let mut x = base.clone(); x.gas_used = (*i).into(); v.push(x); let mut x = base.clone(); x.number = (*i).into(); v.push(x); let mut x = base.clone(); x.timestamp = (*i).into(); v.push(x); let mut x = base.clone(); x.mine_timestamp = U128ED::from(((*i as u128) << 64) | *i as u128); v.push(x); }
        }
        check_codec(&mut t, "BlockResponseED (one field at a time)", &v, cap);
        check_json(&mut t, "BlockResponseED (one field at a time)", &v);
        // Option<AddressED> / Option<B256ED> on their own
        let mut oa: Vec<Option<AddressED>> = vec![None];
        oa.extend(addr_menu.iter().map(|a| Some(*a)));
        check_codec(&mut t, "Option<AddressED>", &oa, cap);
        let mut oh: Vec<Option<B256ED>> = vec![None];
        oh.extend(hash_menu.iter().map(|a| Some(*a)));
        check_codec(&mut t, "Option<B256ED>", &oh, cap);
    }
    // --- long sequences: the element count needs more than one byte (and more than a small integer type) ---
    for n in [255usize, 256, 257, 65_537] {
        let v: Vec<B256ED> = (0..n).map(|k| { let mut b = [0u8; 32]; b[28..].copy_from_slice(&(k as u32).to_be_bytes()); B256ED::from(b) }).collect();
        check_codec(&mut t, &format!("Vec<B256ED>[{}]", n), &[v.clone()], cap);
        let mut b = template.clone();
        b.transactions = either::Either::Left(v);
        check_codec(&mut t, &format!("BlockResponseED[{} transactions]", n), &[b.clone()], cap);
        if n <= 257 {
            check_json(&mut t, &format!("BlockResponseED[{} transactions]", n), &[b]);
        }
    }
    for n in [255usize, 256, 300] {
        let mut r = rcs[5].clone();
        r.logs = (0..n).map(|k| { let mut l = lg[(k * 7) % lg.len()].clone(); l.log_index = (k as u64).into(); l }).collect();
        check_codec(&mut t, &format!("TxReceiptED[{} logs]", n), &[r.clone()], cap);
        check_json(&mut t, &format!("TxReceiptED[{} logs]", n), &[r]);
        let mut tr = trs[3].clone();
        tr.calls = (0..n).map(|k| trs[k % trs.len()].clone()).collect();
        check_codec(&mut t, &format!("TraceED[{} calls]", n), &[tr.clone()], cap);
        check_json(&mut t, &format!("TraceED[{} calls]", n), &[tr]);
        let s: Vec<String> = (0..n).map(|k| "x".repeat(k % 5)).collect();
        check_codec(&mut t, &format!("Vec<String>[{}]", n), &[s], cap);
    }
    check_codec(&mut t, "String[255,256,257]", &["a".repeat(255), "b".repeat(256), "é".repeat(257)], cap);
    check_codec(&mut t, "BytesED[255,256,257,65535]", &[vec![1u8; 255], vec![2u8; 256], vec![3u8; 257], vec![4u8; 65535]].into_iter().map(BytesED::from).collect::<Vec<_>>(), cap);
    // --- histories of variable-length values, 0..=W+1 versions, with deletions ---
    {
        let w = brc20_prog::verif::MAX_REORG_HISTORY_SIZE;
        let mut n = 0u64;
        for writes in 0..=(w + 1) {
            for del in [u64::MAX, 0, 1] {
                let mut h = BlockHistoryCacheData::<BytesED>::new(if writes % 2 == 0 { None } else { Some(vec![7u8; 33].into()) });
                let mut hs = BlockHistoryCacheData::<String>::new(None);
                for k in 0..writes {
                    if del != u64::MAX && k % 3 == del {
                        h.unset(100 + k);
                        hs.unset(100 + k);
                    } else {
                        h.set(100 + k, vec![k as u8; (k as usize * 37) % 300].into());
                        hs.set(100 + k, "é".repeat(k as usize));
                    }
                }
                for (name, enc, latest_ok) in [
                    ("BytesED", h.encode_vec(), BlockHistoryCacheData::<BytesED>::decode(&h.encode_vec(), 0).map(|(d, u)| d.latest() == h.latest() && d.encode_vec() == h.encode_vec() && u == h.encode_vec().len()).unwrap_or(false)),
                    ("String", hs.encode_vec(), BlockHistoryCacheData::<String>::decode(&hs.encode_vec(), 0).map(|(d, u)| d.latest() == hs.latest() && d.encode_vec() == hs.encode_vec() && u == hs.encode_vec().len()).unwrap_or(false)),
                ] {
                    n += 1;
                    if !latest_ok {
                        t.violations.push(("roundtrip-BlockHistoryCacheData".into(), format!("history of {} writes of {} (deletions at k%3=={}) does not come back from its encoding ({} bytes)", writes, name, del, enc.len())));
                    }
                }
            }
        }
        t.evaluations += n;
        t.types.push(json!({"type": "BlockHistoryCacheData<BytesED|String>", "values": n}));
    }
    // --- request types of the bundled client ---
    {
        use brc20_prog::types::{Base64Bytes, EthCall, GetLogsFilter, PrecompileData, RawBytes};
        let raws = vec![RawBytes::empty(), RawBytes::new("0x".into()), RawBytes::new("0x00ff".into()), RawBytes::from_bytes(Bytes::from(vec![9u8; 33]))];
        check_json(&mut t, "RawBytes", &raws);
        let b64s = vec![Base64Bytes::empty(), Base64Bytes::new("".into()), Base64Bytes::new("AAE".into()), Base64Bytes::from_bytes(Bytes::from(vec![0u8; 100])).unwrap(), Base64Bytes::from_bytes(Bytes::from((0..200u8).collect::<Vec<_>>())).unwrap()];
        check_json(&mut t, "Base64Bytes", &b64s);
        let mut calls = Vec::new();
        for from in [None, Some(AddressED::from([0x11u8; 20]))] {
            for to in [None, Some(AddressED::from([0u8; 20]))] {
                for d in &raws {
                    calls.push(EthCall { from: from.clone(), to: to.clone(), data: Some(d.clone()) });
                }
                calls.push(EthCall { from: from.clone(), to: to.clone(), data: None });
            }
        }
        check_json(&mut t, "EthCall", &calls);
        let mut filters = Vec::new();
        use serde_either::SingleOrVec;
        let tp: Vec<Option<Vec<SingleOrVec<Option<B256ED>>>>> = vec![
            None,
            Some(vec![]),
            Some(vec![SingleOrVec::Single(None)]),
            Some(vec![SingleOrVec::Single(Some([1u8; 32].into())), SingleOrVec::Single(None), SingleOrVec::Vec(vec![Some([2u8; 32].into()), Some([3u8; 32].into())])]),
            Some(vec![SingleOrVec::Vec(vec![]), SingleOrVec::Vec(vec![None, Some([4u8; 32].into())])]),
        ];
        for fb in [None, Some("latest".to_string()), Some("0x10".to_string()), Some("7".to_string())] {
            for tb in [None, Some("pending".to_string())] {
                for a in [None, Some(AddressED::from([0x22u8; 20]))] {
                    for topics in &tp {
                        filters.push(GetLogsFilter { from_block: fb.clone(), to_block: tb.clone(), address: a.clone(), topics: topics.clone() });
                    }
                }
            }
        }
        check_json(&mut t, "GetLogsFilter", &filters);
        let mut pds = Vec::new();
        for ids in [vec![], vec![B256ED::from([5u8; 32])], vec![B256ED::from([5u8; 32]), B256ED::from([0u8; 32])]] {
            for hexes in [vec![], vec![(B256ED::from([6u8; 32]), RawBytes::new("0x0200".into()))]] {
                pds.push(PrecompileData { op_return_tx_ids: ids.clone(), bitcoin_tx_hexes: hexes.into_iter().collect() });
            }
        }
        check_json(&mut t, "PrecompileData", &pds);
        check_json(&mut t, "U128ED", &u128ed);
        check_json(&mut t, "U8ED", &[0u8, 1, 255].map(U8ED::from));
        check_json(&mut t, "B2048ED", &[B2048ED::from([0u8; 256]), B2048ED::from([0xffu8; 256])]);
        check_json(&mut t, "AccountInfoED", &accts[..64.min(accts.len())]);
    }
    // --- what a real instance serves: every typed answer deserialised and serialised again ---
    real_data_pass(&mut t);

    let mut ev = Evidence::new("C14", tier, seed, "exploration");
    ev.coverage = json!({
        "evaluations": t.evaluations, "distinct_nontrivial": t.distinct,
        "rule": "per type: the full product of the per-field value menus listed in DESIGN §4 C14 (boundary integers, empty / 1 / 31 / 32 / 33 / 65536-byte strings, None/Some at every optional position, 0..4 topics, traces nested 0..2 deep, blocks with 0..3 transactions); every value: decode(encode v) = v consuming exactly the produced bytes, also with trailing bytes; pairs: concatenation decodes to the pair; all pairs of keys: order of values = order of encodings; JSON: serialise, deserialise, serialise gives the same text. distinct = distinct encodings",
        "samples": t.samples, "types": t.types, "exhaustive": true,
    });
    ev.assumptions = vec!["nothing is claimed for values outside the grid".into(), "TxED / BlockResponseED: fields the module fills with constants (chain id of the configuration, zero value / gas price, legacy header fields) are held at those constants".into()];
    ev.violations = t.violations.len() as i64;
    ev.wall_s = t0.elapsed().as_secs_f64();
    ev.write();
    println!("C14 {}: {} evaluations over {} type entries, {} distinct encodings, wall={:.1}s", tier, t.evaluations, t.types.len(), t.distinct, ev.wall_s);
    if !t.violations.is_empty() {
        for (k, d) in t.violations.iter().take(10) {
            let v = crate::explore::Violation { property: "C14".into(), kind: k.clone(), scenario: "codec".into(), start: "".into(), path: vec![], steps: vec![], detail: d.clone() };
            let (new, known) = crate::evidence::triage("C14", vec![v]);
            for (id, _) in known {
                println!("KNOWN-FINDING: property=C14 {}", id);
            }
            for v in new {
                let p = crate::evidence::write_replay(&v);
                println!("VIOLATION property=C14 replay={}", p);
                println!("  {} {}", k, crate::explore::trunc(d, 1200));
            }
        }
        let (new, _) = crate::evidence::triage("C14", t.violations.iter().map(|(k, d)| crate::explore::Violation { property: "C14".into(), kind: k.clone(), scenario: "codec".into(), start: "".into(), path: vec![], steps: vec![], detail: d.clone() }).collect());
        if !new.is_empty() {
            return 1;
        }
    }
    let _ = product::<u8>;
    0
}
