//! C08 — signed transactions execute once, in nonce order, via a bounded pending pool.
//! Reference pool (DESIGN.md Appendix B) folded over the surviving calls, compared at every step.
use super::common::*;
use crate::explore::*;
use crate::hist::Scenario;
use crate::inst::Inst;
use crate::util::*;
use crate::world::*;
use alloy::primitives::Address;
use serde_json::{json, Value};
use std::collections::BTreeMap;

#[derive(Default)]
struct Pool {
    nonce: BTreeMap<Address, u64>,
    /// (signer, nonce) -> arrival block
    waiting: BTreeMap<(Address, u64), u64>,
}

fn hexu(v: &Value) -> Option<u64> {
    v.as_str().and_then(parse_hex_u64)
}

fn decode_any(raw: &[u8]) -> Option<(Address, u64, Option<u64>)> {
    use alloy_consensus::transaction::RlpEcdsaDecodableTx;
    use alloy_consensus::SignableTransaction;
    let mut slice: &[u8] = raw;
    let (tx, sig) = alloy_consensus::TxLegacy::rlp_decode_with_signature(&mut slice).ok()?;
    let hash = alloy::primitives::keccak256(tx.encoded_for_signing());
    let addr = sig.recover_address_from_prehash(&hash).ok()?;
    Some((addr, tx.nonce, tx.chain_id))
}

fn check_pool(inst: &mut Inst, world: &World) -> Vec<(String, String)> {
    let mut bad: Vec<(String, String)> = Vec::new();
    let mut note = |bad: &mut Vec<(String, String)>, k: &str| bad.push((format!("note:{}", k), String::new()));
    let mut m = Pool::default();
    let chain = crate::inst::chain_id();
    for rec in &world.recs {
        let b = rec.height;
        let mut count_in_block: u64 = 0;
        let mut all: Vec<&Rec> = rec.calls.iter().collect();
        if let Some(c) = &rec.close {
            all.push(c);
        }
        for r in all {
            let out: Value = serde_json::from_str(&r.outcome).unwrap_or(Value::Null);
            let is_err = out.get("error").is_some();
            match r.call.method.as_str() {
                "brc20_transact" => {
                    let raw = r.call.params.get("raw_tx_data").and_then(|x| x.as_str()).and_then(|x| hex::decode(x.trim_start_matches("0x")).ok()).unwrap_or_default();
                    let receipts: Vec<Value> = out.get("result").and_then(|x| x.as_array()).cloned().unwrap_or_default();
                    let Some((signer, n, cid)) = decode_any(&raw) else {
                        note(&mut bad, "undecodable");
                        if !is_err {
                            bad.push(("undecodable-accepted".into(), format!("undecodable raw transaction accepted: {}", r.outcome)));
                        }
                        continue;
                    };
                    if is_err {
                        bad.push(("valid-transact-rejected".into(), format!("brc20_transact(signer {}, nonce {}) in block {} returned {}", signer, n, b, r.outcome)));
                        continue;
                    }
                    let acct = *m.nonce.get(&signer).unwrap_or(&0);
                    // every receipt of one call: consecutive indexes starting at the block's count
                    for (k, rc) in receipts.iter().enumerate() {
                        if hexu(&rc["transactionIndex"]) != Some(count_in_block + k as u64) {
                            bad.push(("non-consecutive-index".into(), format!("brc20_transact in block {}: receipt #{} has index {} but the block held {} transactions", b, k, rc["transactionIndex"], count_in_block)));
                        }
                    }
                    if cid != Some(chain) || n < acct || n >= acct + P_NONCES {
                        note(&mut bad, if cid != Some(chain) { "wrong-chain" } else if n < acct { "stale" } else { "far-future" });
                        if !receipts.is_empty() {
                            bad.push(("ignored-transaction-executed".into(), format!("brc20_transact(signer {}, nonce {}, chain {:?}) with account nonce {} produced {} receipts", signer, n, cid, acct, receipts.len())));
                        }
                        continue;
                    }
                    if n > acct {
                        note(&mut bad, if m.waiting.contains_key(&(signer, n)) { "replaced" } else { "parked" });
                        if !receipts.is_empty() {
                            bad.push(("future-nonce-executed".into(), format!("brc20_transact(signer {}, nonce {}) with account nonce {} produced {} receipts", signer, n, acct, receipts.len())));
                        }
                        m.waiting.insert((signer, n), b);
                        continue;
                    }
                    // n == account nonce: executes now
                    if receipts.is_empty() {
                        bad.push(("due-transaction-not-executed".into(), format!("brc20_transact(signer {}, nonce {}) equals the account nonce but produced no receipt", signer, n)));
                        continue;
                    }
                    let first_valid = hexu(&receipts[0]["gasUsed"]).unwrap_or(0) > 0;
                    if !first_valid {
                        // refused by EVM validation: no nonce consumed. What then happens to the waiting
                        // successors is not prescribed; the model follows the code (the drain runs all the
                        // same) and the invariants below are what is checked
                        note(&mut bad, "due-but-evm-invalid");
                    }
                    m.nonce.insert(signer, if first_valid { acct + 1 } else { acct });
                    let mut expected = 1usize;
                    let mut next = n + 1;
                    loop {
                        let Some(arrived) = m.waiting.get(&(signer, next)).cloned() else { break };
                        m.waiting.remove(&(signer, next));
                        if arrived + P_BLOCKS > b {
                            note(&mut bad, "drained");
                            expected += 1;
                            // the drained transaction is executed with its own nonce
                            if let Some(rc) = receipts.get(expected - 1) {
                                let tx = inst.call("eth_getTransactionByHash", json!([rc["transactionHash"]]));
                                let tn = tx.result().and_then(|t| hexu(&t["nonce"]));
                                if tn != Some(next) {
                                    bad.push(("drain-out-of-order".into(), format!("receipt #{} of the drain is for nonce {:?}, expected {}", expected - 1, tn, next)));
                                }
                                if hexu(&rc["gasUsed"]).unwrap_or(0) > 0 {
                                    *m.nonce.get_mut(&signer).unwrap() += 1;
                                }
                            }
                            next += 1;
                        } else {
                            note(&mut bad, "expired-at-drain");
                            break;
                        }
                    }
                    if receipts.len() != expected {
                        bad.push(("receipt-count".into(), format!("brc20_transact(signer {}, nonce {}) in block {} returned {} receipts, the pool rules give {}", signer, n, b, receipts.len(), expected)));
                    }
                    count_in_block += receipts.len() as u64;
                }
                "brc20_finaliseBlock" | "brc20_mine" | "brc20_initialise" => {
                    if !is_err || r.outcome.contains("Bitcoin RPC status check failed") {
                        // expiry at finalise of block b
                        let gone: Vec<(Address, u64)> = m.waiting.iter().filter(|(_, arr)| **arr + P_BLOCKS <= b).map(|(k, _)| *k).collect();
                        for k in gone {
                            m.waiting.remove(&k);
                            note(&mut bad, "expired-at-finalise");
                        }
                    }
                }
                _ => {
                    if !is_err {
                        let n = match out.get("result") {
                            Some(Value::Array(a)) => a.len() as u64,
                            Some(Value::Object(o)) if o.contains_key("transactionHash") => 1,
                            _ => 0,
                        };
                        count_in_block += n;
                    }
                }
            }
        }
    }
    // the observable pool and nonces equal the model's
    let tp = inst.call("txpool_content", json!([]));
    let mut got: BTreeMap<(String, u64), ()> = BTreeMap::new();
    if let Some(p) = tp.result().and_then(|r| r.get("pending")).and_then(|p| p.as_object()) {
        for (a, ns) in p {
            if let Some(ns) = ns.as_object() {
                for (n, tx) in ns {
                    got.insert((a.to_lowercase(), n.parse().unwrap_or(u64::MAX)), ());
                    if hexu(&tx["nonce"]) != n.parse().ok() {
                        bad.push(("txpool-entry".into(), format!("txpool entry {} / {} holds nonce {}", a, n, tx["nonce"])));
                    }
                }
            }
        }
    }
    let want: BTreeMap<(String, u64), ()> = m.waiting.keys().map(|(a, n)| ((addr_s(*a), *n), ())).collect();
    if got != want {
        bad.push(("txpool-differs-from-model".into(), format!("txpool_content shows {:?} but the waiting set is {:?}", got.keys().collect::<Vec<_>>(), want.keys().collect::<Vec<_>>())));
    }
    for s in 0..2u8 {
        let a = crate::sign::signer_addr(s);
        let r = inst.call("eth_getTransactionCount", json!([addr_s(a), "latest"]));
        let n = r.result().and_then(hexu);
        if n != Some(*m.nonce.get(&a).unwrap_or(&0)) {
            bad.push(("nonce-differs-from-model".into(), format!("eth_getTransactionCount({}) = {:?} but {} signed transactions were executed", a, n, m.nonce.get(&a).unwrap_or(&0))));
        }
        let from = inst.call("txpool_contentFrom", json!([addr_s(a)]));
        let gotf: Vec<u64> = from.result().and_then(|r| r["pending"].as_object().cloned()).map(|p| p.values().flat_map(|ns| ns.as_object().map(|o| o.keys().filter_map(|k| k.parse().ok()).collect::<Vec<u64>>()).unwrap_or_default()).collect()).unwrap_or_default();
        let mut gotf = gotf;
        gotf.sort();
        let wantf: Vec<u64> = m.waiting.keys().filter(|(x, _)| *x == a).map(|(_, n)| *n).collect();
        if gotf != wantf {
            bad.push(("txpool-from-differs-from-model".into(), format!("txpool_contentFrom({}) shows {:?} but the waiting set is {:?}", a, gotf, wantf)));
        }
    }
    bad
}

fn oracle(_sc: &Scenario) -> Option<BoundaryOracle<'static>> {
    Some(Box::new(|inst: &mut Inst, world: &World, _outs: &[StepOut]| {
        if world.desync {
            return Vec::new();
        }
        check_pool(inst, world)
    }))
}

pub fn oracle_factory() -> crate::hist::OracleFactory {
    oracle
}

pub fn scenarios(tier: &str) -> Vec<Scenario> {
    let thorough = tier == "thorough";
    let t = |sig: u8, n: u64, v: u8| TxSpec::Transact { signer: sig, nonce: n, tgt: Tgt::s(), data: crate::asm::s_set(1, v, 0, [0; 4]), len: DEFAULT_LEN };
    let tm = |name: &str, tx: TxSpec| mac(name, Kind::Growth, vec![Step::Tx(tx)]);
    let other_chain = crate::sign::raw_tx(0, 1, 0, Some(Tgt::s().resolve().unwrap().parse().unwrap()), &[6, 0]);
    let mut alpha = vec![
        tm("T(s0,n0)", t(0, 0, 1)),
        tm("T(s0,n1)", t(0, 1, 2)),
        tm("T(s0,n2)", t(0, 2, 3)),
        tm("T(s0,n3)", t(0, 3, 4)),
        tm("T(s0,n1)'", t(0, 1, 9)),
        tm("T(s1,n0)", t(1, 0, 5)),
        tm("T(s1,n1)", t(1, 1, 6)),
        // the payloads of T(s0,n0) and T(s0,n1) signed by the other signer
        tm("T(s1,n0) with the payload of T(s0,n0)", t(1, 0, 1)),
        tm("T(s1,n1) with the payload of T(s0,n1)", t(1, 1, 2)),
        tm("T(s0,nP-1)", t(0, P_NONCES - 1, 7)),
        tm("T(s0,nP)", t(0, P_NONCES, 8)),
        tm("T(s0,n0,len0)", TxSpec::Transact { signer: 0, nonce: 0, tgt: Tgt::s(), data: vec![6, 0], len: 0 }),
        tm("T(other chain)", TxSpec::TransactRaw { raw: other_chain, len: DEFAULT_LEN }),
        // signed without replay protection (no chain id): not a transaction of this chain either
        tm("T(s0,n0,no chain id)", TxSpec::TransactRaw { raw: crate::sign::raw_tx_unprotected(0, 0, Some(Tgt::s().resolve().unwrap().parse().unwrap()), &crate::asm::s_set(1, 11, 0, [0; 4])), len: DEFAULT_LEN }),
        tm("T(s0,n1,no chain id)", TxSpec::TransactRaw { raw: crate::sign::raw_tx_unprotected(0, 1, Some(Tgt::s().resolve().unwrap().parse().unwrap()), &crate::asm::s_set(1, 12, 0, [0; 4])), len: DEFAULT_LEN }),
        tm("T(garbage)", TxSpec::TransactRaw { raw: vec![0xc0, 1, 2], len: DEFAULT_LEN }),
        tm("I(set)", s_set(0, 0, 1)),
        mac("F", Kind::Growth, vec![Step::Fin]),
    ];
    let narrow: Vec<Macro> = alpha.iter().filter(|m| ["T(s0,n0)", "T(s0,n1)", "T(s0,n2)", "T(s0,n3)", "T(s1,n0)", "T(s1,n1)", "F"].contains(&m.name.as_str())).cloned().collect();
    alpha.push(mac("M(P-2)", Kind::Growth, vec![Step::Mine(P_BLOCKS - 2)]));
    alpha.push(m_reorg(0, RTarget::Back(1)));
    // the gap-filling transaction refused for a protocol reason: the waiting set stays what it was
    alpha.push(mac("refused T(s0,n0) at index+1", Kind::Dev(1), vec![Step::Bad(BadSpec::TxIdx { tx: t(0, 0, 1), idx: IdxSel::Plus1 })]));
    alpha.push(mac("refused T(s0,n0) carrying the hash of block 1", Kind::Dev(1), vec![Step::Bad(BadSpec::TxExistingHash { tx: t(0, 0, 1), height: 1 })]));
    alpha.push(mac("K", Kind::Dev(1), vec![Step::Clear]));
    alpha.push(m_commit(1));
    let base = start_with_s();
    let aged = |k: u64| -> (String, Vec<Step>) {
        let mut s = base.clone();
        s.extend(block(vec![t(0, 1, 2)]));
        s.extend(block(vec![t(0, 2, 3)]));
        s.push(Step::Mine(k));
        (format!("nonce 1 parked in block 2, nonce 2 in block 3, then {} blocks", k), s)
    };
    let mut opts = Opts::new("C08", "pool");
    opts.nf_compare = false;
    opts.err_unchanged = true;
    // which calls must be refused is C05's statement (a stale transaction carrying a wrong index is ignored, not
    // refused: nothing is appended); here a refused call only has to leave the pool as it was
    opts.check_expect = false;
    vec![
        Scenario {
            name: "pool-aged".into(),
            opts: opts.clone(),
            starts: vec![aged(P_BLOCKS - 3), aged(P_BLOCKS - 2), aged(P_BLOCKS - 1), aged(P_BLOCKS)],
            alphabet: alpha.clone(),
            bounds: Bounds { depth: if thorough { 3 } else { 2 }, dev: vec![1, 1], dev_total: 2 },
            weight: 1.0,
            network: "regtest".into(),
            traces: false,
        },
        Scenario {
            name: "pool-arrival-orders".into(),
            opts: opts.clone(),
            starts: vec![("S deployed in block 1".into(), base.clone())],
            alphabet: narrow,
            bounds: Bounds { depth: if thorough { 7 } else { 5 }, dev: vec![0, 0], dev_total: 0 },
            weight: 3.0,
            network: "regtest".into(),
            traces: false,
        },
        Scenario {
            name: "pool".into(),
            opts,
            starts: vec![("S deployed in block 1".into(), base)],
            alphabet: alpha,
            bounds: Bounds { depth: if thorough { 4 } else { 3 }, dev: vec![1, 1], dev_total: 2 },
            weight: 3.0,
            network: "regtest".into(),
            traces: false,
        },
    ]
}
