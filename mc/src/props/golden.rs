//! C02, cross-process / cross-build clause: pinned digests of a fixed corpus of histories.
use super::common::*;
use crate::explore::Violation;
use crate::inst::{fresh_dir, Inst};
use crate::obs::{self, ObsCfg};
use crate::util::*;
use crate::world::*;
use brc20_prog::verif::Decode;
use serde_json::{json, Value};
use std::collections::BTreeMap;

pub fn corpus() -> Vec<(String, Vec<Step>)> {
    let mut v = Vec::new();
    let sc = super::c02::scenarios("quick");
    let alpha = &sc.iter().find(|s| s.name == "twins").expect("twins scenario").alphabet;
    let base = start_with_s();
    for (i, a) in alpha.iter().enumerate() {
        for (j, b) in alpha.iter().enumerate() {
            if (i + 2 * j) % 3 != 0 && i != j {
                continue;
            }
            let mut s = base.clone();
            s.extend(a.steps.clone());
            s.extend(b.steps.clone());
            v.push((format!("[{}, {}]", a.name, b.name), s));
        }
    }
    // ledger, context and precompile paths
    let mut l = vec![Step::Init];
    l.extend(block(vec![TxSpec::Deposit { pk: 1, ticker: "ORDI".into(), amount: "0x9".into() }, TxSpec::Withdraw { pk: 1, ticker: "ordi".into(), amount: "0x2".into() }, TxSpec::Withdraw { pk: 1, ticker: "ordi".into(), amount: "0x99".into() }]));
    l.push(Step::Commit);
    v.push(("ledger".into(), l));
    let mut c = start_with_s();
    c.extend(block(vec![TxSpec::Deploy { pk: 1, code: crate::asm::ctx_initcode(), len: DEFAULT_LEN }]));
    c.push(Step::Params { ts: 77, zero_hash: true });
    c.extend(block(vec![TxSpec::Call { pk: 0, tgt: Tgt::Created { pk: 1, nonce: 0 }, data: vec![0], len: DEFAULT_LEN }, TxSpec::Transact { signer: 0, nonce: 0, tgt: Tgt::Created { pk: 1, nonce: 0 }, data: vec![1], len: DEFAULT_LEN }]));
    c.push(Step::Mine(3));
    c.push(Step::Reorg(RTarget::Back(2)));
    v.push(("context".into(), c));
    let mut p = start_with_s();
    // locked pkscript through a contract (the repository's vector) and failing precompile inputs
    let fb = {
        use alloy::sol_types::SolCall;
        alloy::sol! { function getLockedPkscript(bytes pkscript, uint256 lock_block_count) returns (bytes locked_pkscript); }
        getLockedPkscriptCall { pkscript: alloy::primitives::Bytes::from(hex::decode("5120e0e224cd541454519b62047aa0891ea7b81a16598556aeb83a412a0b06a20aab").unwrap()), lock_block_count: alloy::primitives::U256::from(6u64) }.abi_encode()
    };
    let mut cd = vec![8u8, 0xfb, fb.len() as u8];
    cd.extend_from_slice(&fb);
    p.extend(block(vec![s_call(0, cd), s_call(1, vec![8, 0xfe, 2, 1, 2]), s_call(1, vec![8, 0xfa, 0]), s_call(2, vec![8, 0x02, 3, 1, 2, 3])]));
    v.push(("precompiles".into(), p));
    v
}

/// Heights at which the rules change on a network (Prague activation; transaction hash = hash of the raw
/// transaction instead of the signing hash).
pub fn fork_heights(network: &str) -> Vec<u64> {
    match network {
        "mainnet" => vec![923_369, 929_000],
        "signet" => vec![275_000],
        _ => vec![],
    }
}

/// Child (`vmc forks <network>`): one linear history that crosses every fork height of the network with an
/// inscription call and a signed transaction to the context probe in each of the blocks F-2 .. F+1; prints the
/// digest of every call outcome and of the observation taken after each crossing.
pub fn forks_main(network: &str) {
    crate::inst::set_config(network, true);
    let mut inst = Inst::fresh();
    let mut w = World::new();
    let mut text = String::new();
    let mut setup = start_with_s();
    setup.extend(block(vec![TxSpec::Deploy { pk: 1, code: crate::asm::ctx_initcode(), len: DEFAULT_LEN }]));
    for s in &setup {
        let o = w.exec(&mut inst, s);
        text.push_str(&canon(&o.outcome.to_value()));
        text.push('\n');
    }
    let ctx = Tgt::Created { pk: 1, nonce: 0 };
    let mut nonce = 0u64;
    let mut crossed = Vec::new();
    let mut ok = true;
    for f in fork_heights(network) {
        let mut h = w.h.unwrap();
        let target = f - 3;
        while h < target {
            let n = (target - h).min(50_000);
            let r = inst.call("brc20_mine", json!([n, 1_700_000_000u64]));
            if !r.is_ok() {
                ok = false;
                break;
            }
            h += n;
            inst.call("brc20_commitToDatabase", json!([]));
        }
        w.h = Some(h);
        w.max_ever = Some(h);
        w.uni.max_height = h;
        for _ in 0..4 {
            for tx in [TxSpec::Call { pk: 0, tgt: ctx.clone(), data: vec![0], len: DEFAULT_LEN }, TxSpec::Transact { signer: 0, nonce, tgt: ctx.clone(), data: vec![nonce as u8], len: DEFAULT_LEN }] {
                let o = w.exec(&mut inst, &Step::Tx(tx));
                text.push_str(&canon(&o.outcome.to_value()));
                text.push('\n');
            }
            nonce += 1;
            let o = w.exec(&mut inst, &Step::Fin);
            text.push_str(&canon(&o.outcome.to_value()));
            text.push('\n');
            // what the probe recorded in this block
            let a = ctx.resolve().unwrap();
            for slot in 0..20u64 {
                text.push_str(&canon(&inst.call("eth_getStorageAt", json!([a, format!("0x{:x}", slot)])).to_value()));
                text.push('\n');
            }
        }
        text.push_str(&obs::obs(&mut inst, &w.uni, &ObsCfg::default()));
        crossed.push(f);
    }
    drop(inst);
    crate::inst::cleanup_scratch();
    println!("@@FORKS {}", serde_json::to_string(&json!({"network": network, "ok": ok, "crossed": crossed, "top": w.h, "bytes": text.len(), "digest": sha256::digest(text)})).unwrap());
}

pub fn forks_spawn() -> Vec<(String, std::process::Child)> {
    let exe = std::env::current_exe().expect("exe");
    ["mainnet", "signet"].iter().map(|n| (n.to_string(), std::process::Command::new(&exe).arg("forks").arg(n).stdout(std::process::Stdio::piped()).stderr(std::process::Stdio::null()).spawn().expect("spawn forks child"))).collect()
}

fn forks_wait(children: Vec<(String, std::process::Child)>) -> Result<BTreeMap<String, Value>, String> {
    let mut out = BTreeMap::new();
    for (net, ch) in children {
        let o = ch.wait_with_output().map_err(|e| e.to_string())?;
        let so = String::from_utf8_lossy(&o.stdout).to_string();
        let l = so.lines().rev().find(|l| l.starts_with("@@FORKS ")).ok_or_else(|| format!("fork-boundary child for {} produced nothing (exit {:?})", net, o.status.code()))?;
        let v: Value = serde_json::from_str(&l["@@FORKS ".len()..]).map_err(|e| e.to_string())?;
        if v["ok"] != json!(true) {
            return Err(format!("fork-boundary child for {}: mining towards the fork height failed", net));
        }
        out.insert(net, v);
    }
    Ok(out)
}

fn forks_path() -> std::path::PathBuf {
    crate::evidence::verif_root().join("golden").join("forks.json")
}

/// Compare the fork-boundary digests with the pinned ones (same version clause as the corpus digests).
pub fn forks_collect(children: Vec<(String, std::process::Child)>) -> (Value, Vec<Violation>, Vec<String>) {
    let mut vs = Vec::new();
    let mut errors = Vec::new();
    let (pv, dv) = versions();
    let got = match forks_wait(children) {
        Ok(g) => g,
        Err(e) => return (json!({}), vs, vec![e]),
    };
    let mut report = serde_json::Map::new();
    match std::fs::read_to_string(forks_path()).ok().and_then(|s| serde_json::from_str::<Value>(&s).ok()) {
        Some(g) => {
            let same_version = g["protocol_version"].as_str() == Some(pv.as_str()) && g["db_version"].as_str() == Some(dv.as_str());
            for (net, v) in &got {
                if same_version && g["digests"][net] != v["digest"] {
                    vs.push(Violation { property: "C02".into(), kind: "differs-from-pinned-digest".into(), scenario: "golden".into(), start: net.clone(), path: vec![format!("linear history across the fork heights {}", v["crossed"])], steps: vec![], detail: format!("linear history on {} crossing the heights {} (inscription call and signed transaction to the context probe in the four blocks around each): digest {} but {} is pinned for protocol version {}", net, v["crossed"], v["digest"], g["digests"][net], pv) });
                }
                report.insert(net.clone(), json!({"crossed": v["crossed"], "top": v["top"], "bytes": v["bytes"], "compared_with_pinned": same_version}));
            }
        }
        None => errors.push("no pinned fork-boundary digests".into()),
    }
    (Value::Object(report), vs, errors)
}

pub fn versions() -> (String, String) {
    let dir = fresh_dir();
    let cfg = brc20_prog::Brc20ProgConfig::new("127.0.0.1:0".into(), false, None, None, true, 1, "http://127.0.0.1:1".into(), "x".into(), "x".into(), "regtest".into(), 1, false, dir.to_string_lossy().to_string(), 1, 1, 1);
    let _ = brc20_prog::verif::validate_config_database(&cfg);
    let mut o = rocksdb::Options::default();
    o.create_if_missing(false);
    let mut out = (String::new(), String::new());
    if let Ok(db) = rocksdb::DB::open(&o, dir.join("config")) {
        use brc20_prog::verif::Encode;
        let get = |k: &str| db.get(k.to_string().encode_vec()).ok().flatten().and_then(|v| String::decode_vec(&v).ok()).unwrap_or_default();
        out = (get("PROTOCOL_VERSION"), get("DB_VERSION"));
    }
    let _ = std::fs::remove_dir_all(&dir);
    out
}

/// Child: digests of every corpus history under one network configuration.
pub fn digest_main(network: &str) {
    crate::inst::set_config(network, true);
    let mut inst = Inst::fresh();
    let mut out: BTreeMap<String, String> = BTreeMap::new();
    for (name, steps) in corpus() {
        inst.wipe();
        let mut w = World::new();
        let mut text = String::new();
        for s in &steps {
            let o = w.exec(&mut inst, s);
            text.push_str(&canon(&o.outcome.to_value()));
            text.push('\n');
        }
        text.push_str(&obs::obs(&mut inst, &w.uni, &ObsCfg::default()));
        text.push_str(&obs::obs_constants(&mut inst));
        out.insert(name, sha256::digest(text));
    }
    drop(inst);
    crate::inst::cleanup_scratch();
    println!("@@DIGEST {}", serde_json::to_string(&out).unwrap());
}

fn run_child(network: &str) -> Result<BTreeMap<String, String>, String> {
    let exe = std::env::current_exe().map_err(|e| e.to_string())?;
    let o = std::process::Command::new(exe).arg("digest").arg(network).output().map_err(|e| e.to_string())?;
    let so = String::from_utf8_lossy(&o.stdout).to_string();
    let l = so.lines().rev().find(|l| l.starts_with("@@DIGEST ")).ok_or_else(|| format!("digest child for {} produced nothing", network))?;
    serde_json::from_str(&l["@@DIGEST ".len()..]).map_err(|e| e.to_string())
}

fn golden_path(network: &str) -> std::path::PathBuf {
    crate::evidence::verif_root().join("golden").join(format!("{}.json", network))
}

pub fn record() {
    let (pv, dv) = versions();
    for net in ["regtest", "signet", "mainnet"] {
        let d = run_child(net).expect("digest");
        let _ = std::fs::create_dir_all(golden_path(net).parent().unwrap());
        std::fs::write(golden_path(net), serde_json::to_string_pretty(&json!({"protocol_version": pv, "db_version": dv, "network": net, "digests": d})).unwrap()).expect("write golden");
        println!("recorded {} digests for {}", d.len(), net);
    }
    let got = forks_wait(forks_spawn()).expect("fork-boundary digests");
    let digests: BTreeMap<String, Value> = got.iter().map(|(k, v)| (k.clone(), v["digest"].clone())).collect();
    std::fs::write(forks_path(), serde_json::to_string_pretty(&json!({"protocol_version": pv, "db_version": dv, "digests": digests})).unwrap()).expect("write golden");
    println!("recorded fork-boundary digests: {:?}", got.iter().map(|(k, v)| format!("{} {}", k, v["crossed"])).collect::<Vec<_>>());
}

/// Two separate processes per network must agree with each other and with the pinned digests.
pub fn check() -> (Value, Vec<Violation>, Vec<String>) {
    let mut vs = Vec::new();
    let mut errors = Vec::new();
    let (pv, dv) = versions();
    let mut report = serde_json::Map::new();
    for net in ["regtest", "signet", "mainnet"] {
        let a = run_child(net);
        let b = run_child(net);
        let (a, b) = match (a, b) {
            (Ok(a), Ok(b)) => (a, b),
            (Err(e), _) | (_, Err(e)) => {
                errors.push(e);
                continue;
            }
        };
        for (k, va) in &a {
            if b.get(k) != Some(va) {
                vs.push(Violation { property: "C02".into(), kind: "processes-disagree".into(), scenario: "golden".into(), start: net.into(), path: vec![k.clone()], steps: vec![], detail: format!("history {} on {}: two processes of the same build produce different digests {} / {:?}", k, net, va, b.get(k)) });
            }
        }
        let mut compared = 0;
        let mut skipped = String::new();
        match std::fs::read_to_string(golden_path(net)).ok().and_then(|s| serde_json::from_str::<Value>(&s).ok()) {
            Some(g) => {
                if g["protocol_version"].as_str() != Some(pv.as_str()) || g["db_version"].as_str() != Some(dv.as_str()) {
                    skipped = format!("the tree declares protocol {} / database {} but the digests were pinned for {} / {}: the property only binds equal versions", pv, dv, g["protocol_version"], g["db_version"]);
                } else {
                    for (k, va) in &a {
                        compared += 1;
                        if g["digests"][k].as_str() != Some(va.as_str()) {
                            vs.push(Violation { property: "C02".into(), kind: "differs-from-pinned-digest".into(), scenario: "golden".into(), start: net.into(), path: vec![k.clone()], steps: vec![], detail: format!("history {} on {}: digest {} but {} is pinned for protocol version {}", k, net, va, g["digests"][k], pv) });
                        }
                    }
                }
            }
            None => errors.push(format!("no pinned digests for {}", net)),
        }
        report.insert(net.to_string(), json!({"histories": a.len(), "compared_with_pinned": compared, "skipped": skipped}));
    }
    (json!({"protocol_version": pv, "db_version": dv, "networks": report}), vs, errors)
}
