//! C10 — read-only methods never change state.
use super::common::*;
use crate::explore::*;
use crate::hist::Scenario;
use crate::util::*;
use crate::world::*;
use serde_json::{json, Value};

fn ethcall(from: u8, to: Option<String>, data: &[u8]) -> Value {
    json!({"from": addr_s(pk_addr(from)), "to": to, "data": hx(data)})
}

alloy::sol! {
    function getTxDetails(bytes32 txid) returns (uint256 block_height, bytes32[] vin_txids, uint256[] vin_vouts, bytes[] vin_scriptPubKeys, uint256[] vin_values, bytes[] vout_scriptPubKeys, uint256[] vout_values);
}

const OV_TOP: [u8; 32] = [0x11; 32];
const OV_PREV: [u8; 32] = [0x22; 32];

/// eth_callMany of getTxDetails(OV_TOP) with overrides in which the spent output of OV_PREV is worth `value`
fn txdetails_read(value: u64) -> Value {
    use alloy::sol_types::SolCall;
    let top = super::c09::btc_tx_v(OV_PREV, &[0], false, 1, 777);
    let prev = super::c09::btc_tx_v(OV_PREV, &[0], true, 1, value);
    let d = getTxDetailsCall { txid: OV_TOP.into() }.abi_encode();
    let mut hexes = serde_json::Map::new();
    hexes.insert(hx(&OV_TOP), json!(hx(&top)));
    hexes.insert(hx(&OV_PREV), json!(hx(&prev)));
    json!([[{"from": addr_s(pk_addr(0)), "to": "0x00000000000000000000000000000000000000fd", "data": hx(&d)}], null, {"opReturnTxIds": [], "bitcoinTxHexes": hexes, "expectVinValue": value}])
}

/// A read that carries Bitcoin-transaction overrides answers from *its own* overrides: the value of the spent
/// output it reports is the one in this request's override set, whatever earlier requests carried.
fn oracle(_sc: &Scenario) -> Option<BoundaryOracle<'static>> {
    Some(Box::new(move |_inst: &mut crate::inst::Inst, _world: &World, outs: &[StepOut]| {
        use alloy::sol_types::SolCall;
        let mut bad = Vec::new();
        let Some(o) = outs.last() else { return bad };
        let Step::Read { method, params, .. } = &o.step else { return bad };
        let Some(want) = params.get(2).and_then(|p| p.get("expectVinValue")).and_then(|v| v.as_u64()) else { return bad };
        if o.call.method == "<skip>" {
            return bad;
        }
        let got = o.outcome.result().and_then(|r| r.get(0)).and_then(|x| x.as_str()).and_then(|h| hex::decode(h.trim_start_matches("0x")).ok()).and_then(|b| getTxDetailsCall::abi_decode_returns(&b).ok());
        match got {
            Some(r) if r.vin_values.len() == 1 && r.vin_values[0] == alloy::primitives::U256::from(want) => bad.push(("note:override-reads-answering-from-their-own-overrides".into(), String::new())),
            Some(r) => bad.push(("override-read-answers-from-another-request".into(), format!("{} whose override set says the spent output is worth {} answered vin_values = {:?}", method, want, r.vin_values))),
            None => bad.push(("override-read-answers-from-another-request".into(), format!("{} with a complete override set (spent output worth {}) answered {}", method, want, canon(&o.outcome.to_value())))),
        }
        bad
    }))
}

pub fn oracle_factory() -> crate::hist::OracleFactory {
    oracle
}

pub fn read_menu() -> Vec<(String, Step)> {
    let s = Tgt::s().resolve().unwrap();
    let rd = |m: &str, p: Value, boundary_only: bool| Step::Read { method: m.to_string(), params: p, boundary_only };
    let set = ethcall(0, Some(s.clone()), &crate::asm::s_set(0, 9, 2, [1, 2, 0, 0]));
    let get0 = ethcall(0, Some(s.clone()), &[6, 0]);
    let create = ethcall(1, Some(s.clone()), &[2]);
    let die = ethcall(1, Some(s.clone()), &[3]);
    let fail = ethcall(1, Some(s.clone()), &[4]);
    let boom = ethcall(1, Some(s.clone()), &[7]);
    let deploy = ethcall(2, None, &crate::asm::s_initcode());
    // call data so large that the bisection of the estimate tries gas limits below the intrinsic cost:
    // the simulation then fails in validation, which is the error path inside the multi-call loop
    let mut big = vec![6u8, 0];
    big.extend(std::iter::repeat(0x11u8).take(3000));
    let bigget = ethcall(0, Some(s.clone()), &big);
    // creation code reading BLOCKHASH at distances 1, 2, 256 and of block 0: at an explicit future height
    // these are blocks the database has no row for
    let bh_code: Vec<u8> = vec![0x43, 0x60, 0x01, 0x90, 0x03, 0x40, 0x50, 0x43, 0x60, 0x02, 0x90, 0x03, 0x40, 0x50, 0x43, 0x61, 0x01, 0x00, 0x90, 0x03, 0x40, 0x50, 0x5f, 0x40, 0x50, 0x00];
    let bh = ethcall(3, None, &bh_code);
    let pre = json!({"opReturnTxIds": [h32(0x31), h32(0x32), h32(0x33)], "bitcoinTxHexes": {}});
    let z = zero32();
    vec![
        ("call:set".into(), rd("eth_call", json!([set, null]), true)),
        ("call:create".into(), rd("eth_call", json!([create, null]), true)),
        ("call:die".into(), rd("eth_call", json!([die, "latest"]), true)),
        ("call:fail".into(), rd("eth_call", json!([fail, null]), true)),
        ("call:boom".into(), rd("eth_call", json!([boom, null]), true)),
        ("call:deploy".into(), rd("eth_call", json!([deploy, null]), true)),
        ("callMany:set,get,create".into(), rd("eth_callMany", json!([[set, get0, create], null, null]), true)),
        ("callMany:set,fail,get".into(), rd("eth_callMany", json!([[set, fail, get0], null, null]), true)),
        ("callMany:set,boom".into(), rd("eth_callMany", json!([[set, boom], null, pre]), true)),
        // fewer transaction ids than calls (and an empty list)
        ("callMany:set,get,create+1 txid".into(), rd("eth_callMany", json!([[set, get0, create], null, {"opReturnTxIds": [h32(0x31)], "bitcoinTxHexes": {}}]), true)),
        ("estimateMany:set,get+1 txid".into(), rd("eth_estimateGasMany", json!([[set, get0], null, {"opReturnTxIds": [h32(0x31)], "bitcoinTxHexes": {}}]), true)),
        ("callMany:set,get+no txids".into(), rd("eth_callMany", json!([[set, get0], null, {"opReturnTxIds": [], "bitcoinTxHexes": {}}]), true)),
        ("callMany:deploy,set+pre".into(), rd("eth_callMany", json!([[deploy, set], "pending", pre]), true)),
        ("estimate:set".into(), rd("eth_estimateGas", json!([set, null]), true)),
        ("estimate:create".into(), rd("eth_estimateGas", json!([create, null]), true)),
        ("estimate:fail".into(), rd("eth_estimateGas", json!([fail, null]), true)),
        ("estimateMany:set,create".into(), rd("eth_estimateGasMany", json!([[set, create], null, null]), true)),
        ("estimateMany:set,get,die".into(), rd("eth_estimateGasMany", json!([[set, get0, die], null, pre]), true)),
        ("estimateMany:set,bigdata".into(), rd("eth_estimateGasMany", json!([[set, bigget], null, null]), true)),
        ("estimate:bigdata".into(), rd("eth_estimateGas", json!([bigget, null]), true)),
        ("call:blockhash".into(), rd("eth_call", json!([bh, null]), true)),
        ("call:blockhash@100".into(), rd("eth_call", json!([bh, "0x64"]), true)),
        ("call:blockhash@1".into(), rd("eth_call", json!([bh, "0x1"]), true)),
        ("call:set@100".into(), rd("eth_call", json!([set, "0x64"]), true)),
        ("callMany:blockhash,set@100".into(), rd("eth_callMany", json!([[bh, set], "0x64", null]), true)),
        ("estimate:blockhash@100".into(), rd("eth_estimateGas", json!([bh, "0x64"]), true)),
        ("estimateMany:blockhash@300".into(), rd("eth_estimateGasMany", json!([[bh, get0], "0x12c", null]), true)),
        ("callMany:txdetails(prev=1000)".into(), rd("eth_callMany", txdetails_read(1000), true)),
        ("callMany:txdetails(prev=2000)".into(), rd("eth_callMany", txdetails_read(2000), true)),
        ("balance".into(), rd("brc20_balance", json!([pkscript(1), "ordi"]), true)),
        ("getLogs".into(), rd("eth_getLogs", json!([{}]), false)),
        ("getBlock".into(), rd("eth_getBlockByNumber", json!(["latest", true]), false)),
        ("traceString".into(), rd("debug_getBlockTraceString", json!(["latest"]), false)),
        ("rawBlock".into(), rd("debug_getRawBlock", json!(["latest"]), false)),
        ("txpool".into(), rd("txpool_content", json!([]), false)),
        ("receipt".into(), rd("brc20_getTxReceiptByInscriptionId", json!([crate::world::s_insc()]), false)),
        ("storage".into(), rd("eth_getStorageAt", json!([s, "0x0"]), false)),
        ("blockByHash".into(), rd("eth_getBlockByHash", json!([z, true]), false)),
    ]
}

pub fn scenarios(tier: &str) -> Vec<Scenario> {
    let thorough = tier == "thorough";
    let park = TxSpec::Transact { signer: 0, nonce: 1, tgt: Tgt::s(), data: crate::asm::s_set(1, 3, 0, [0; 4]), len: DEFAULT_LEN };
    let mut alpha = vec![
        mac("T(set0=1)", Kind::Growth, vec![Step::Tx(s_set(0, 0, 1))]),
        mac("T(deposit)", Kind::Growth, vec![Step::Tx(TxSpec::Deposit { pk: 1, ticker: "ordi".into(), amount: "0x5".into() })]),
        mac("T(s0,n1)", Kind::Growth, vec![Step::Tx(park)]),
        mac("F", Kind::Growth, vec![Step::Fin]),
    ];
    for (n, s) in read_menu() {
        alpha.push(mac(&format!("read:{}", n), Kind::Dev(0), vec![s]));
    }
    let mut opts = Opts::new("C10", "reads");
    opts.read_unchanged = true;
    opts.commit_compare = true;
    let base = start_with_s();
    let mut committed = base.clone();
    committed.extend(block(vec![s_set(0, 0, 1)]));
    committed.push(Step::Commit);
    // a slot cleared by a real transaction holds an explicit zero row, which simulated SLOADs then read
    let mut cleared = committed.clone();
    cleared.extend(block(vec![s_set(0, 0, 0)]));
    vec![
        Scenario {
            name: "reads-interleaved".into(),
            opts: opts.clone(),
            starts: vec![("S deployed in block 1".into(), base)],
            alphabet: alpha.clone(),
            bounds: Bounds { depth: if thorough { 5 } else { 4 }, dev: vec![if thorough { 2 } else { 1 }], dev_total: 2 },
            weight: 2.0,
            network: "regtest".into(),
            traces: true,
        },
        // the same reads on top of committed state (and of a slot that a real transaction cleared), one step shallower
        Scenario {
            name: "reads-interleaved-on-committed-state".into(),
            opts,
            starts: vec![("one block committed".into(), committed), ("slot 0 set, committed, then cleared".into(), cleared)],
            alphabet: alpha,
            bounds: Bounds { depth: if thorough { 4 } else { 3 }, dev: vec![if thorough { 2 } else { 1 }], dev_total: 2 },
            weight: 1.0,
            network: "regtest".into(),
            traces: true,
        },
    ]
}
