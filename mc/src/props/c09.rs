//! C09 — no request can crash, hang or wedge the server.
//! Enumerated request grid (every registered method, every parameter deviating over a fixed menu,
//! in several engine states) and code-path grids (all byte strings of length <= 2 as init code /
//! runtime code / call data / precompile input; ABI grids of the custom precompiles), each case run
//! on the real dispatch table in a worker process that the parent watches (hang = no progress).
use crate::evidence::Evidence;
use crate::explore::{trunc, Violation};
use crate::inst::Inst;
use crate::requests::{all_requests, state_classes, Ctx, Req};
use crate::util::*;
use crate::world::*;
use alloy::primitives::{Bytes, U256};
use alloy::sol_types::SolCall;
use serde::{Deserialize, Serialize};
use serde_json::{json, Value};
use std::collections::{BTreeMap, BTreeSet};
use std::io::{BufRead, BufReader, Write};
use std::sync::mpsc;
use std::time::{Duration, Instant};

alloy::sol! {
    function getLockedPkscript(bytes pkscript, uint256 lock_block_count) returns (bytes locked_pkscript);
    function verify(bytes pkscript, bytes message, bytes signature) returns (bool success);
    function getTxDetails(bytes32 txid) returns (uint256 block_height);
    function getLastSatLocation(bytes32 txid, uint256 vout, uint256 sat) returns (bytes32 last_txid);
}

#[derive(Clone, Debug)]
enum Case {
    /// (state class index, request)
    Request { state: usize, req: Req, what: String },
    /// executed against the "initialised" state without rebuilding it
    Sim { req: Req, what: String },
}

fn int_menu() -> Vec<Value> {
    vec![json!(0), json!(1), json!(4294967295u64), json!(9223372036854775808u64), json!(18446744073709551615u64), json!(-1), json!(1.5)]
}

fn str_menu(big: bool) -> Vec<Value> {
    let mut v = vec![json!(""), json!("a"), json!("0x"), json!("0x0"), json!("0xzz"), json!("0xfff"), json!("latest"), json!("pending"), json!("0xffffffffffffffffffffffffffffffffffffffffffffffffffffffffffffffff"), json!("00"), json!("zz")];
    if big {
        v.push(json!("ab".repeat(512 * 1024)));
        v.push(json!(format!("0x{}", "00".repeat(512 * 1024))));
    }
    v
}

fn b64_menu() -> Vec<Value> {
    use base64::prelude::BASE64_STANDARD_NO_PAD;
    use base64::Engine;
    let z = {
        let data = vec![0u8; 8 << 20];
        let mut out = vec![0u8; zstd_safe::compress_bound(data.len())];
        let n = zstd_safe::compress(out.as_mut_slice(), &data, 3).unwrap();
        out.truncate(n);
        out
    };
    let enc = |p: u8, d: &[u8]| {
        let mut v = vec![p];
        v.extend_from_slice(d);
        BASE64_STANDARD_NO_PAD.encode(v)
    };
    let mut v = vec![json!(""), json!("="), json!("=="), json!("AA"), json!("AQ"), json!("Ag"), json!("Aw"), json!("A"), json!("!!"), json!(enc(2, &z[..6])), json!(enc(2, &z)), json!(enc(1, &nada::encode(vec![0u8; 8 << 20]))), json!(enc(0, &[0xde, 0xad]))];
    // zstd frame headers that only *declare* a content size (no honest frame has these sizes)
    for f in forged_zstd_headers(true) {
        v.push(json!(enc(2, &f)));
    }
    v
}

/// A zstd frame consisting of a header that declares `size` as its content size (single segment, field width
/// chosen by `fcs`: 3 = 8 bytes, 2 = 4 bytes, 1 = 2 bytes (+256), 0 = 1 byte) and one empty last block.
pub fn forged_zstd_frame(fcs: u8, size: u64) -> Vec<u8> {
    let mut v = vec![0x28, 0xb5, 0x2f, 0xfd, (fcs << 6) | 0x20];
    match fcs {
        3 => v.extend_from_slice(&size.to_le_bytes()),
        2 => v.extend_from_slice(&(size as u32).to_le_bytes()),
        1 => v.extend_from_slice(&((size.saturating_sub(256)) as u16).to_le_bytes()),
        _ => v.push(size as u8),
    }
    v.extend_from_slice(&[0x01, 0x00, 0x00]);
    v
}

/// `with_huge`: also sizes between 2^34 and 2^62, which an implementation that allocates what the header
/// declares can only answer by dying in the allocator (use in watched child processes only).
pub fn forged_zstd_headers(with_huge: bool) -> Vec<Vec<u8>> {
    let limit = brc20_prog::verif::CALLDATA_LIMIT as u64;
    let mut sizes: Vec<(u8, u64)> = vec![(3, 0), (3, 1), (3, limit), (3, limit + 1), (3, u32::MAX as u64), (3, 1 << 63), (3, (1 << 63) + 1), (3, u64::MAX), (2, u32::MAX as u64), (2, limit as u64 + 1), (1, 65_791), (0, 255)];
    if with_huge {
        sizes.extend([(3, 1u64 << 34), (3, 1 << 40), (3, 1 << 47), (3, 1 << 62)]);
    }
    let mut v: Vec<Vec<u8>> = sizes.into_iter().map(|(f, s)| forged_zstd_frame(f, s)).collect();
    // header only, without any block
    v.push(forged_zstd_frame(3, u64::MAX)[..13].to_vec());
    v
}

fn other_menu() -> Vec<Value> {
    vec![Value::Null, json!(true), json!([]), json!({}), json!([1, 2]), json!({"a": 1})]
}

/// All single deviations of a request (and pairs in the thorough tier).
fn deviations(req: &Req, thorough: bool) -> Vec<(String, Value)> {
    let mut out = Vec::new();
    let mut menu: Vec<Value> = int_menu();
    menu.extend(str_menu(false));
    menu.extend(other_menu());
    let keys: Vec<String> = match &req.params {
        Value::Object(m) => m.keys().cloned().collect(),
        Value::Array(a) => (0..a.len()).map(|i| i.to_string()).collect(),
        _ => vec![],
    };
    let set = |p: &Value, k: &str, v: Option<Value>| -> Value {
        let mut p = p.clone();
        match &mut p {
            Value::Object(m) => match v {
                Some(v) => {
                    m.insert(k.to_string(), v);
                }
                None => {
                    m.remove(k);
                }
            },
            Value::Array(a) => {
                let i: usize = k.parse().unwrap();
                match v {
                    Some(v) => a[i] = v,
                    None => a.truncate(i),
                }
            }
            _ => {}
        }
        p
    };
    for k in &keys {
        let mut m = menu.clone();
        if k.contains("base64") {
            m.extend(b64_menu());
        }
        if k == "data" || k == "raw_tx_data" {
            // also the other encoding field
            for b in b64_menu() {
                let mut p = set(&req.params, k, None);
                if let Value::Object(o) = &mut p {
                    o.insert(if k == "data" { "base64_data".into() } else { "base64_raw_tx_data".into() }, b.clone());
                }
                out.push((format!("{}->base64 {}", k, trunc(&b.to_string(), 30)), p));
            }
        }
        for v in &m {
            out.push((format!("{}={}", k, trunc(&v.to_string(), 30)), set(&req.params, k, Some(v.clone()))));
        }
        out.push((format!("{} missing", k), set(&req.params, k, None)));
    }
    // nested deviations for the structured parameters of the read methods
    if let Value::Array(a) = &req.params {
        if let Some(Value::Object(o)) = a.first() {
            for k in o.keys() {
                for v in menu.iter() {
                    let mut p = req.params.clone();
                    p[0][k] = v.clone();
                    out.push((format!("0.{}={}", k, trunc(&v.to_string(), 30)), p));
                }
            }
        }
    }
    if thorough {
        // pairs: two parameters deviating at once over a reduced menu
        let small: Vec<Value> = vec![json!(0), json!(18446744073709551615u64), json!(""), json!("0xzz"), Value::Null];
        for (i, k1) in keys.iter().enumerate() {
            for k2 in keys.iter().skip(i + 1) {
                for v1 in &small {
                    for v2 in &small {
                        let p = set(&set(&req.params, k1, Some(v1.clone())), k2, Some(v2.clone()));
                        out.push((format!("{}={} & {}={}", k1, trunc(&v1.to_string(), 24), k2, trunc(&v2.to_string(), 24)), p));
                    }
                }
            }
        }
    }
    // whole params replaced
    for v in [Value::Null, json!([]), json!({}), json!("x"), json!(7)] {
        out.push((format!("params={}", v), v));
    }
    out
}

fn eth_call_req(from: &str, to: Option<&str>, data: &[u8]) -> Req {
    Req { method: "eth_call".into(), label: String::new(), params: json!([{"from": from, "to": to, "data": hx(data)}, null]) }
}

fn pre_addr(b: u8) -> String {
    format!("0x{:040x}", b)
}

/// A minimal serialised Bitcoin transaction: `nin` inputs spending (prev, vout), one output.
fn btc_tx(prev: [u8; 32], vouts: &[u32], coinbase: bool, outputs: usize) -> Vec<u8> {
    btc_tx_v(prev, vouts, coinbase, outputs, 1000)
}

pub fn btc_tx_v(prev: [u8; 32], vouts: &[u32], coinbase: bool, outputs: usize, value: u64) -> Vec<u8> {
    let mut v = vec![1, 0, 0, 0];
    v.push(vouts.len() as u8);
    for vo in vouts {
        if coinbase {
            v.extend_from_slice(&[0u8; 32]);
            v.extend_from_slice(&0xffffffffu32.to_le_bytes());
        } else {
            let mut p = prev;
            p.reverse();
            v.extend_from_slice(&p);
            v.extend_from_slice(&vo.to_le_bytes());
        }
        v.push(0);
        v.extend_from_slice(&0xffffffffu32.to_le_bytes());
    }
    v.push(outputs as u8);
    for _ in 0..outputs {
        v.extend_from_slice(&value.to_le_bytes());
        v.push(1);
        v.push(0x51);
    }
    v.extend_from_slice(&[0, 0, 0, 0]);
    v
}

fn cases(tier: &str, seed: u64) -> Vec<Case> {
    let thorough = tier == "thorough";
    let mut v = Vec::new();
    let states = state_classes();
    // ---- request grid ----
    let state_sel: Vec<usize> = if thorough { (0..states.len()).collect() } else { vec![0, 1, 2] };
    let dummy = World::new();
    for si in &state_sel {
        // the context (next block parameters) is resolved by the worker; here only the shape matters
        let reqs = all_requests(&Ctx::of(&dummy));
        for (ri, req) in reqs.iter().enumerate() {
            let simulating = crate::obs::SIMULATING.contains(&req.method.as_str());
            v.push(Case::Request { state: *si, req: Req { label: format!("#{}", ri), ..req.clone() }, what: format!("{} [{}] default", req.method, req.label) });
            // in a state with an open block every simulation waits 5 s for the block: only the default request
            if states[*si].0 == "block-open" && simulating {
                continue;
            }
            for (d, p) in deviations(req, thorough) {
                // a huge brc20_mine count is a (practically) unbounded loop: issued in one state only
                if req.method == "brc20_mine" && states[*si].0 != "initialised" && (d.starts_with("0=4294967295") || d.starts_with("0=9223372036854775808") || d.starts_with("0=18446744073709551615")) {
                    continue;
                }
                v.push(Case::Request { state: *si, req: Req { method: req.method.clone(), label: format!("#{}", ri), params: p }, what: format!("{} [{}] {}", req.method, req.label, d) });
            }
        }
    }
    // in the remaining state classes (a non-empty pool, a committed database, after a reorg, a parked transaction about
    // to be found expired) every method's valid requests are issued as they are
    for si in (0..states.len()).filter(|i| !state_sel.contains(i)) {
        let reqs = all_requests(&Ctx::of(&dummy));
        for (ri, req) in reqs.iter().enumerate() {
            v.push(Case::Request { state: si, req: Req { label: format!("#{}", ri), ..req.clone() }, what: format!("{} [{}] default", req.method, req.label) });
        }
    }
    // large strings once per parameter kind
    for (m, p) in [
        ("brc20_deploy", json!({"from_pkscript": "ab".repeat(600_000), "data": "0x00", "timestamp": 1, "hash": zero32(), "tx_idx": 0, "inscription_id": "x", "inscription_byte_len": 1, "op_return_tx_id": zero32()})),
        ("brc20_deploy", json!({"from_pkscript": "00", "data": format!("0x{}", "5b".repeat(1_100_000)), "timestamp": 1, "hash": zero32(), "tx_idx": 0, "inscription_id": "x".repeat(1_000_000), "inscription_byte_len": u64::MAX, "op_return_tx_id": zero32()})),
        ("web3_sha3", json!([format!("0x{}", "ab".repeat(2_000_000))])),
        ("brc20_balance", json!(["00", "t".repeat(1_000_000)])),
    ] {
        v.push(Case::Request { state: 1, req: Req { method: m.into(), label: "big".into(), params: p }, what: format!("{} with megabyte-sized strings", m) });
    }
    // ---- code paths: all byte strings of length <= 2 ----
    let from = addr_s(pk_addr(0));
    let s = Tgt::s().resolve().unwrap();
    let mut strings: Vec<Vec<u8>> = vec![vec![]];
    for a in 0..=255u8 {
        strings.push(vec![a]);
    }
    for a in 0..=255u16 {
        for b in 0..=255u16 {
            if thorough || b % 16 == (seed % 16) as u16 || a == b {
                strings.push(vec![a as u8, b as u8]);
            }
        }
    }
    for st in &strings {
        v.push(Case::Sim { req: eth_call_req(&from, None, st), what: format!("init code {}", hx(st)) });
        // runtime code: deploy a wrapper that installs it, then call it (state carried between the calls)
        let wrapper = crate::asm::initcode(st);
        let created = addr_s(pk_addr(0).create(1));
        v.push(Case::Sim { req: Req { method: "eth_callMany".into(), label: String::new(), params: json!([[{"from": from, "to": null, "data": hx(&wrapper)}, {"from": from, "to": created, "data": "0x01"}], null, null]) }, what: format!("runtime code {}", hx(st)) });
        v.push(Case::Sim { req: eth_call_req(&from, Some(&s), st), what: format!("call data {}", hx(st)) });
        if thorough || st.len() < 2 || st[0] % 8 == 0 {
            for p in [0xfau8, 0xfb, 0xfc, 0xfd, 0xfe] {
                v.push(Case::Sim { req: eth_call_req(&from, Some(&pre_addr(p)), st), what: format!("precompile 0x{:02x} input {}", p, hx(st)) });
            }
        }
    }
    // ---- brc20_transact with hand-built RLP: every field of the signed legacy transaction over a boundary menu
    // (signature values 0 / 1 / n-1 / n / 2^256-1 / 33 bytes, v in every convention and beyond 64 bits, recipients
    // of 19 / 20 / 21 bytes) and well-signed transactions with extreme gas / value / nonce fields ----
    {
        fn rlp_item(b: &[u8]) -> Vec<u8> {
            if b.len() == 1 && b[0] < 0x80 {
                return vec![b[0]];
            }
            let mut v = Vec::new();
            if b.len() < 56 {
                v.push(0x80 + b.len() as u8);
            } else {
                let l = (b.len() as u64).to_be_bytes();
                let l: Vec<u8> = l.iter().cloned().skip_while(|x| *x == 0).collect();
                v.push(0xb7 + l.len() as u8);
                v.extend_from_slice(&l);
            }
            v.extend_from_slice(b);
            v
        }
        fn rlp_uint(b: &[u8]) -> Vec<u8> {
            let t: Vec<u8> = b.iter().cloned().skip_while(|x| *x == 0).collect();
            rlp_item(&t)
        }
        fn rlp_list(items: &[Vec<u8>]) -> Vec<u8> {
            let body: Vec<u8> = items.concat();
            let mut v = Vec::new();
            if body.len() < 56 {
                v.push(0xc0 + body.len() as u8);
            } else {
                let l = (body.len() as u64).to_be_bytes();
                let l: Vec<u8> = l.iter().cloned().skip_while(|x| *x == 0).collect();
                v.push(0xf7 + l.len() as u8);
                v.extend_from_slice(&l);
            }
            v.extend_from_slice(&body);
            v
        }
        let chain = crate::inst::chain_id();
        let order = hex::decode("fffffffffffffffffffffffffffffffebaaedce6af48a03bbfd25e8cd0364141").unwrap();
        let mut order_m1 = order.clone();
        *order_m1.last_mut().unwrap() -= 1;
        let half_p1 = hex::decode("7fffffffffffffffffffffffffffffff5d576e7357a4501ddfe92f46681b20a1").unwrap();
        let s_bytes = hex::decode(s.trim_start_matches("0x")).unwrap();
        let tos: Vec<(&str, Vec<u8>)> = vec![("creation", vec![]), ("S", s_bytes.clone()), ("19 bytes", s_bytes[1..].to_vec()), ("21 bytes", [s_bytes.clone(), vec![1]].concat())];
        let vs: Vec<(String, Vec<u8>)> = vec![
            ("0".into(), vec![]), ("1".into(), vec![1]), ("27".into(), vec![27]), ("28".into(), vec![28]), ("35".into(), vec![35]),
            ("2c+35".into(), (chain as u128 * 2 + 35).to_be_bytes().to_vec()), ("2c+36".into(), (chain as u128 * 2 + 36).to_be_bytes().to_vec()),
            ("2^64-1".into(), u64::MAX.to_be_bytes().to_vec()), ("2^64".into(), vec![1, 0, 0, 0, 0, 0, 0, 0, 0]), ("2^128".into(), [vec![1u8], vec![0u8; 16]].concat()),
        ];
        let rs: Vec<(&str, Vec<u8>)> = vec![("0", vec![]), ("1", vec![1]), ("n-1", order_m1.clone()), ("n", order.clone()), ("2^256-1", vec![0xff; 32]), ("33 bytes", vec![0x01; 33])];
        let ss: Vec<(&str, Vec<u8>)> = vec![("0", vec![]), ("1", vec![1]), ("n/2+1", half_p1), ("n-1", order_m1), ("2^256-1", vec![0xff; 32])];
        let z = zero32();
        for nonce in [0u64, u64::MAX] {
            for (tn, to) in &tos {
                for (vn, v_) in &vs {
                    for (rn, r_) in &rs {
                        for (sn, s_) in &ss {
                            if !thorough && (nonce == u64::MAX) && !(rn == &"1" || sn == &"1") {
                                continue;
                            }
                            let raw = rlp_list(&[rlp_uint(&nonce.to_be_bytes()), rlp_uint(&[]), rlp_uint(&[]), rlp_item(to), rlp_uint(&[]), rlp_item(&[6, 0]), rlp_uint(v_), rlp_uint(r_), rlp_uint(s_)]);
                            v.push(Case::Request { state: 1, req: Req { method: "brc20_transact".into(), label: "rlp".into(), params: json!({"raw_tx_data": hx(&raw), "timestamp": 5, "hash": z, "tx_idx": 0, "inscription_id": "rlp-grid", "inscription_byte_len": DEFAULT_LEN, "op_return_tx_id": z}) }, what: format!("brc20_transact raw legacy transaction nonce {} to {} v {} r {} s {}", nonce, tn, vn, rn, sn) });
                        }
                    }
                }
            }
        }
        // well-signed, with extreme fields
        {
            use alloy::primitives::{Bytes, TxKind, U256};
            use alloy_consensus::transaction::RlpEcdsaEncodableTx;
            use alloy_consensus::{SignableTransaction, TxLegacy};
            use alloy_signer::SignerSync;
            let signer = crate::sign::signer(2);
            for (what, tx) in [
                ("gas limit 2^64-1", TxLegacy { chain_id: Some(chain), nonce: 0, gas_price: 0, gas_limit: u64::MAX, to: TxKind::Call(s.parse().unwrap()), value: U256::ZERO, input: Bytes::from(vec![6u8, 0]) }),
                ("gas price 2^128-1", TxLegacy { chain_id: Some(chain), nonce: 0, gas_price: u128::MAX, gas_limit: 21000, to: TxKind::Call(s.parse().unwrap()), value: U256::ZERO, input: Bytes::from(vec![6u8, 0]) }),
                ("value 2^256-1", TxLegacy { chain_id: Some(chain), nonce: 0, gas_price: 0, gas_limit: 0, to: TxKind::Call(s.parse().unwrap()), value: U256::MAX, input: Bytes::from(vec![6u8, 0]) }),
                ("nonce 2^64-1", TxLegacy { chain_id: Some(chain), nonce: u64::MAX, gas_price: 0, gas_limit: 0, to: TxKind::Call(s.parse().unwrap()), value: U256::ZERO, input: Bytes::from(vec![6u8, 0]) }),
                ("chain id 2^64-1", TxLegacy { chain_id: Some(u64::MAX), nonce: 0, gas_price: 0, gas_limit: 0, to: TxKind::Call(s.parse().unwrap()), value: U256::ZERO, input: Bytes::from(vec![6u8, 0]) }),
                ("no chain id, creation with value", TxLegacy { chain_id: None, nonce: 0, gas_price: 1, gas_limit: 1, to: TxKind::Create, value: U256::from(1u64), input: Bytes::from(crate::asm::CHILD_INIT.to_vec()) }),
                ("100 kB of call data", TxLegacy { chain_id: Some(chain), nonce: 0, gas_price: 0, gas_limit: 0, to: TxKind::Call(s.parse().unwrap()), value: U256::ZERO, input: Bytes::from(vec![0x11u8; 100_000]) }),
            ] {
                let sig = signer.sign_hash_sync(&tx.signature_hash()).expect("sign");
                let mut raw = Vec::new();
                tx.rlp_encode_signed(&sig, &mut raw);
                for len in [DEFAULT_LEN, 0, u64::MAX] {
                    v.push(Case::Request { state: 1, req: Req { method: "brc20_transact".into(), label: "rlp".into(), params: json!({"raw_tx_data": hx(&raw), "timestamp": 5, "hash": z, "tx_idx": 0, "inscription_id": "signed-extreme", "inscription_byte_len": len, "op_return_tx_id": z}) }, what: format!("brc20_transact well-signed transaction with {} (inscription length {})", what, len) });
                }
            }
        }
    }
    // ---- call shapes: every simulating method x sender kind x target kind x call-data size (a sender
    // with code, or call data whose intrinsic cost exceeds a bisection probe, is refused by the EVM
    // before execution: the error arms of the single- and multi-call paths) ----
    {
        let eoa = addr_s(pk_addr(5));
        let senders: Vec<(&str, String)> = vec![("an EOA", from.clone()), ("a contract (S)", s.clone()), ("the zero address", format!("0x{}", "00".repeat(20))), ("a precompile address", pre_addr(0xfb)), ("the indexer address", "0x0000000000000000000000000000000000003ca6".into())];
        let targets: Vec<(&str, Value)> = vec![("S", json!(s)), ("a creation", Value::Null), ("an account without code", json!(eoa)), ("precompile 0xfb", json!(pre_addr(0xfb)))];
        let mut set_call = vec![1u8, 0, 5, 0, 0, 0, 0, 0];
        set_call.truncate(8);
        let datas: Vec<(&str, Vec<u8>)> = vec![("empty", vec![]), ("S.set", set_call), ("300 non-zero bytes", vec![0x11; 300]), ("40000 non-zero bytes", vec![0x11; 40_000])];
        for (sn, sender) in &senders {
            for (tn, target) in &targets {
                for (dn, data) in &datas {
                    let call = json!({"from": sender, "to": target, "data": hx(data)});
                    for m in ["eth_call", "eth_estimateGas", "eth_callMany", "eth_estimateGasMany"] {
                        let params = if m.ends_with("Many") { json!([[call.clone(), {"from": from, "to": s, "data": "0x0600"}], null, null]) } else { json!([call.clone(), null]) };
                        v.push(Case::Sim { req: Req { method: m.into(), label: String::new(), params }, what: format!("{} from {} to {} with {} call data", m, sn, tn, dn) });
                    }
                }
            }
        }
    }
    // ---- eth_getLogs: every topic filter of up to 4 positions over {null, a topic, a list} (more positions than
    // some stored logs have topics: the state holds logs with 0, 1, 2, 3 and 4 topics) x range x address ----
    {
        let t1 = format!("0x{:064x}", 1);
        let t2 = format!("0x{:064x}", 2);
        let opts: Vec<Value> = vec![Value::Null, json!(t1), json!([t1, t2])];
        let mut filters: Vec<Vec<Value>> = vec![vec![]];
        let mut cur: Vec<Vec<Value>> = vec![vec![]];
        for _ in 0..4 {
            let mut next = Vec::new();
            for c in &cur {
                for o in &opts {
                    let mut n = c.clone();
                    n.push(o.clone());
                    next.push(n);
                }
            }
            filters.extend(next.iter().cloned());
            cur = next;
        }
        for tf in &filters {
            for (rn, range) in [("default range", json!({})), ("blocks 0..3", json!({"fromBlock": "0x0", "toBlock": "0x3"})), ("earliest..latest", json!({"fromBlock": "earliest", "toBlock": "latest"}))] {
                for addr in [None, Some(s.clone())] {
                    let mut f = range.as_object().cloned().unwrap_or_default();
                    if !tf.is_empty() {
                        f.insert("topics".into(), Value::Array(tf.clone()));
                    }
                    if let Some(a) = &addr {
                        f.insert("address".into(), json!(a));
                    }
                    v.push(Case::Sim { req: Req { method: "eth_getLogs".into(), label: String::new(), params: json!([Value::Object(f)]) }, what: format!("eth_getLogs topics {} over {}{}", trunc(&Value::Array(tf.clone()).to_string().replace(&t1, "t1").replace(&t2, "t2"), 60), rn, if addr.is_some() { " at S" } else { "" }) });
                }
            }
        }
    }
    // ---- ABI grids of the custom precompiles, directly and through a contract (S.callpre) ----
    let mut pre: Vec<(u8, Vec<u8>, String)> = Vec::new();
    for len in 0..=40usize {
        for cnt in [0u64, 1, 16, 17, 127, 128, 255, 256, 32767, 32768, 65535, 65536] {
            if !thorough && len > 4 && len != 34 && len != 22 && cnt % 2 == 1 {
                continue;
            }
            let d = getLockedPkscriptCall { pkscript: Bytes::from(vec![0x51; len]), lock_block_count: U256::from(cnt) }.abi_encode();
            pre.push((0xfb, d, format!("getLockedPkscript(pkscript of {} bytes, {})", len, cnt)));
        }
    }
    pre.push((0xfb, getLockedPkscriptCall { pkscript: Bytes::from(vec![0x51; 100_000]), lock_block_count: U256::MAX }.abi_encode(), "getLockedPkscript(100000 bytes, MAX)".into()));
    for a in [0usize, 1, 34, 32769] {
        for b in [0usize, 1, 32769] {
            for c in [0usize, 1, 66, 32769] {
                if !thorough && (a + b + c) > 40000 && !(a == 32769 && b == 0 && c == 0) {
                    continue;
                }
                let d = verifyCall { pkscript: Bytes::from(vec![0x51; a]), message: Bytes::from(vec![0x41; b]), signature: Bytes::from(vec![0x02; c]) }.abi_encode();
                pre.push((0xfe, d, format!("verify(pkscript {}, message {}, signature {})", a, b, c)));
            }
        }
    }
    // BIP-322 with well-formed addresses of every kind x witness shapes (the verification library indexes into
    // the witness: every item count and the key / signature lengths it branches on)
    {
        let gx = hex::decode("79be667ef9dcbbac55a06295ce870b07029bfcdb2dce28d959f2815b16f81798").unwrap();
        let gy = hex::decode("483ada7726a3c4655da4fbfc0e1108a8fd17b448a68554199c47d08ffb10d4b8").unwrap();
        let mut pk33 = vec![0x02u8];
        pk33.extend_from_slice(&gx);
        let mut pk65 = vec![0x04u8];
        pk65.extend_from_slice(&gx);
        pk65.extend_from_slice(&gy);
        let h20 = vec![0x33u8; 20];
        let scripts: Vec<(&str, Vec<u8>)> = vec![
            ("p2pkh", [vec![0x76, 0xa9, 0x14], h20.clone(), vec![0x88, 0xac]].concat()),
            ("p2sh", [vec![0xa9, 0x14], h20.clone(), vec![0x87]].concat()),
            ("p2wpkh", [vec![0x00, 0x14], h20.clone()].concat()),
            ("p2wsh", [vec![0x00, 0x20], vec![0x44u8; 32]].concat()),
            ("p2tr", [vec![0x51, 0x20], gx.clone()].concat()),
            ("p2tr (repository vector)", hex::decode("5120e0e224cd541454519b62047aa0891ea7b81a16598556aeb83a412a0b06a20aab").unwrap()),
            ("p2tr (not a curve point)", [vec![0x51, 0x20], vec![0xffu8; 32]].concat()),
            ("witness v2", [vec![0x52, 0x20], vec![0x44u8; 32]].concat()),
        ];
        let der = |n: usize, sighash: u8| -> Vec<u8> {
            // DER signature of n bytes followed by the sighash byte
            let rl = (n - 6) / 2;
            let sl = n - 6 - rl;
            let mut v = vec![0x30, (n - 2) as u8, 0x02, rl as u8];
            v.extend(std::iter::repeat(0x01).take(rl));
            v.push(0x02);
            v.push(sl as u8);
            v.extend(std::iter::repeat(0x01).take(sl));
            v.push(sighash);
            v
        };
        let wit = |items: &[Vec<u8>]| -> Vec<u8> {
            let mut v = vec![items.len() as u8];
            for i in items {
                assert!(i.len() < 0xfd);
                v.push(i.len() as u8);
                v.extend_from_slice(i);
            }
            v
        };
        let witnesses: Vec<(&str, Vec<u8>)> = vec![
            ("no items", wit(&[])),
            ("one empty item", wit(&[vec![]])),
            ("one item of 1 byte", wit(&[vec![1]])),
            ("one item of 64 bytes", wit(&[vec![0x01; 64]])),
            ("one item of 65 bytes", wit(&[[vec![0x01; 64], vec![0x00]].concat()])),
            ("one item of 65 bytes, sighash 0x01", wit(&[[vec![0x01; 64], vec![0x01]].concat()])),
            ("one item of 66 bytes", wit(&[vec![0x01; 66]])),
            ("two empty items", wit(&[vec![], vec![]])),
            ("signature of 71 bytes, compressed key", wit(&[der(70, 1), pk33.clone()])),
            ("signature of 72 bytes, compressed key", wit(&[der(71, 1), pk33.clone()])),
            ("signature of 71 bytes with sighash NONE, compressed key", wit(&[der(70, 2), pk33.clone()])),
            ("signature of 71 bytes, uncompressed key", wit(&[der(70, 1), pk65.clone()])),
            ("signature of 72 bytes, uncompressed key", wit(&[der(71, 1), pk65.clone()])),
            ("signature of 71 bytes, key of 33 zero bytes", wit(&[der(70, 1), vec![0u8; 33]])),
            ("signature of 70 bytes, compressed key", wit(&[der(69, 1), pk33.clone()])),
            ("empty signature, compressed key", wit(&[vec![], pk33.clone()])),
            ("71 bytes that are not DER, compressed key", wit(&[vec![0x30; 71], pk33.clone()])),
            ("three items", wit(&[der(70, 1), pk33.clone(), vec![1, 2, 3]])),
            ("item count larger than the data", vec![5, 1, 1]),
            ("empty byte string", vec![]),
        ];
        for (sn, sc) in &scripts {
            for (wn, w) in &witnesses {
                for msg in [vec![], b"Hello World".to_vec()] {
                    let d = verifyCall { pkscript: Bytes::from(sc.clone()), message: Bytes::from(msg.clone()), signature: Bytes::from(w.clone()) }.abi_encode();
                    pre.push((0xfe, d, format!("verify({} address, message of {} bytes, witness: {})", sn, msg.len(), wn)));
                }
            }
        }
    }
    // 0xfc / 0xfd with invalid ABI (fails before any RPC)
    for d in [vec![], vec![0x55, 0x79, 0xa4, 0xa5], vec![0x55, 0x79, 0xa4, 0xa5, 1, 2, 3], vec![0xff; 31], vec![0; 200]] {
        pre.push((0xfd, d.clone(), format!("getTxDetails raw input {}", trunc(&hx(&d), 24))));
        pre.push((0xfc, d.clone(), format!("getLastSatLocation raw input {}", trunc(&hx(&d), 24))));
    }
    for (p, d, what) in &pre {
        v.push(Case::Sim { req: eth_call_req(&from, Some(&pre_addr(*p)), d), what: format!("precompile 0x{:02x}: {}", p, what) });
        if d.len() < 250 {
            let mut cd = vec![8u8, *p, d.len() as u8];
            cd.extend_from_slice(d);
            v.push(Case::Sim { req: eth_call_req(&from, Some(&s), &cd), what: format!("S.callpre -> 0x{:02x}: {}", p, what) });
        }
    }
    // 0xfc / 0xfd with complete Bitcoin-transaction overrides (no RPC needed)
    let t1 = [0x11u8; 32];
    let t2 = [0x22u8; 32];
    let overrides: Vec<(String, Value)> = vec![
        ("self-referential".into(), json!({ hx(&t1): hx(&btc_tx(t1, &[0], false, 1)) })),
        ("coinbase".into(), json!({ hx(&t1): hx(&btc_tx(t1, &[0], true, 1)) })),
        ("zero inputs".into(), json!({ hx(&t1): hx(&btc_tx(t1, &[], false, 1)) })),
        ("vout out of range".into(), json!({ hx(&t1): hx(&btc_tx(t2, &[7], false, 1)), hx(&t2): hx(&btc_tx(t2, &[0], true, 1)) })),
        ("chain of two".into(), json!({ hx(&t1): hx(&btc_tx(t2, &[0], false, 2)), hx(&t2): hx(&btc_tx(t2, &[0], true, 1)) })),
        ("zero outputs".into(), json!({ hx(&t1): hx(&btc_tx(t2, &[0], false, 0)), hx(&t2): hx(&btc_tx(t2, &[0], true, 0)) })),
        ("outputs of 2^64-1 sat each (sums wrap)".into(), json!({ hx(&t1): hx(&btc_tx_v(t2, &[0, 1, 2], false, 3, u64::MAX)), hx(&t2): hx(&btc_tx_v(t2, &[0], true, 3, u64::MAX)) })),
        ("200 inputs".into(), json!({ hx(&t1): hx(&btc_tx(t2, &(0..200u32).collect::<Vec<_>>(), false, 2)), hx(&t2): hx(&btc_tx(t2, &[0], true, 200)) })),
        ("inputs worth less than the outputs".into(), json!({ hx(&t1): hx(&btc_tx_v(t2, &[0], false, 2, 5000)), hx(&t2): hx(&btc_tx_v(t2, &[0], true, 1, 1)) })),
        ("garbage hex".into(), json!({ hx(&t1): "0x0102" })),
        ("empty hex".into(), json!({ hx(&t1): "0x" })),
    ];
    for (name, ov) in &overrides {
        for (p, d) in [(0xfdu8, getTxDetailsCall { txid: t1.into() }.abi_encode()), (0xfc, getLastSatLocationCall { txid: t1.into(), vout: U256::from(0u64), sat: U256::from(0u64) }.abi_encode()), (0xfc, getLastSatLocationCall { txid: t1.into(), vout: U256::MAX, sat: U256::MAX }.abi_encode()), (0xfc, getLastSatLocationCall { txid: t1.into(), vout: U256::from(1u64), sat: U256::from(u64::MAX) }.abi_encode()), (0xfc, getLastSatLocationCall { txid: t1.into(), vout: U256::from(2u64), sat: U256::from(999u64) }.abi_encode()), (0xfc, getLastSatLocationCall { txid: t1.into(), vout: U256::from(3u64), sat: U256::ZERO }.abi_encode()), (0xfc, getLastSatLocationCall { txid: t1.into(), vout: U256::from(1u64) << 64, sat: U256::from(1u64) << 64 }.abi_encode())] {
            v.push(Case::Sim { req: Req { method: "eth_callMany".into(), label: String::new(), params: json!([[{"from": from, "to": pre_addr(p), "data": hx(&d)}], null, {"opReturnTxIds": [], "bitcoinTxHexes": ov}]) }, what: format!("precompile 0x{:02x} with override set '{}'", p, name) });
        }
    }
    v
}

#[derive(Default, Serialize, Deserialize)]
struct WStats {
    cases: u64,
    ok: u64,
    errors: u64,
    panics: Vec<(u64, String, String)>,
    wedges: Vec<(u64, String, String)>,
    by_method: BTreeMap<String, u64>,
    samples: Vec<String>,
}

fn liveness(inst: &mut Inst) -> Result<(), String> {
    let a = inst.call("eth_blockNumber", json!([]));
    if !a.is_ok() {
        return Err(format!("eth_blockNumber answers {}", canon(&a.to_value())));
    }
    let b = inst.call("brc20_clearCaches", json!([]));
    if !b.is_ok() {
        return Err(format!("brc20_clearCaches answers {}", canon(&b.to_value())));
    }
    let c = inst.call("brc20_mine", json!([1, 5]));
    if !c.is_ok() {
        return Err(format!("brc20_mine(1) answers {}", canon(&c.to_value())));
    }
    let d = inst.call("eth_getBlockByNumber", json!(["latest", true]));
    if !d.is_ok() {
        return Err(format!("eth_getBlockByNumber(latest) answers {}", canon(&d.to_value())));
    }
    Ok(())
}

fn build_state(inst: &mut Inst, steps: &[Step]) -> World {
    inst.wipe();
    let mut w = World::new();
    for s in steps {
        w.exec(inst, s);
    }
    w
}

pub fn worker_main(tier: &str, shard: u64, nshards: u64, seed: u64, args: &[String]) {
    crate::inst::set_config("regtest", true);
    let skip: BTreeSet<u64> = args.iter().find_map(|a| a.strip_prefix("skip=")).map(|s| s.split(',').filter_map(|x| x.parse().ok()).collect()).unwrap_or_default();
    let resume: u64 = args.iter().find_map(|a| a.strip_prefix("resume=")).and_then(|s| s.parse().ok()).unwrap_or(0);
    let all = cases(tier, seed);
    let states = state_classes();
    let mut st = WStats::default();
    let mut inst = Inst::fresh();
    let mut sim_ready = false;
    let out = std::io::stdout();
    for (id, case) in all.iter().enumerate() {
        let id = id as u64;
        if id % nshards != shard || id < resume || skip.contains(&id) {
            continue;
        }
        let (req, what) = match case {
            Case::Request { state, req, what } => {
                let w = build_state(&mut inst, &states[*state].1);
                sim_ready = false;
                // re-resolve the request against this state's context
                let ri: usize = req.label.trim_start_matches('#').parse().unwrap_or(usize::MAX);
                let fresh = all_requests(&Ctx::of(&w));
                let mut r = req.clone();
                if let (Some(base), Some(orig)) = (fresh.get(ri), all_requests(&Ctx::of(&World::new())).get(ri)) {
                    // keep deviated fields, refresh the context-dependent ones that were left at their default
                    r.params = merge_ctx(&req.params, &orig.params, &base.params);
                }
                (r, format!("[state {}] {}", states[*state].0, what))
            }
            Case::Sim { req, what } => {
                if !sim_ready || inst.broken {
                    build_state(&mut inst, &states[1].1);
                    sim_ready = true;
                }
                (req.clone(), format!("[simulation] {}", what))
            }
        };
        {
            let mut o = out.lock();
            let _ = writeln!(o, "@@CASE {} {}", id, trunc(&what, 300));
            let _ = o.flush();
        }
        st.cases += 1;
        *st.by_method.entry(req.method.clone()).or_insert(0) += 1;
        let r = inst.call(&req.method, req.params.clone());
        if r.is_panic() {
            st.panics.push((id, what.clone(), format!("{} {} -> {}", req.method, trunc(&req.params.to_string(), 600), r.err_msg().unwrap_or_default())));
        } else if r.is_ok() {
            st.ok += 1;
        } else {
            st.errors += 1;
        }
        // a simulation that leaves the engine emptied or poisoned shows in the very next query
        if matches!(case, Case::Sim { .. }) && !r.is_panic() {
            let probe = inst.call("eth_blockNumber", json!([]));
            if !probe.is_ok() {
                st.wedges.push((id, what.clone(), format!("after {} {}: eth_blockNumber answers {}", req.method, trunc(&req.params.to_string(), 400), trunc(&canon(&probe.to_value()), 300))));
                inst.recreate();
                sim_ready = false;
            }
        }
        // the server keeps serving: checked after every state-building case and after any panic
        if matches!(case, Case::Request { .. }) || r.is_panic() || st.cases % 512 == 0 {
            let live = if inst.broken { std::panic::catch_unwind(std::panic::AssertUnwindSafe(|| liveness(&mut inst))).unwrap_or_else(|_| Err("liveness probe panicked".into())) } else { liveness(&mut inst) };
            if let Err(e) = live {
                st.wedges.push((id, what.clone(), format!("after {} {}: {}", req.method, trunc(&req.params.to_string(), 400), e)));
            }
            if inst.broken {
                inst.recreate();
            }
            sim_ready = false;
        }
        if st.samples.len() < 5 && st.cases % 997 == 3 {
            st.samples.push(what.clone());
        }
        {
            let mut o = out.lock();
            let _ = writeln!(o, "@@DONE {}", id);
            let _ = o.flush();
        }
    }
    drop(inst);
    crate::inst::cleanup_scratch();
    println!("@@RESULT {}", serde_json::to_string(&st).unwrap());
}

/// For every top-level field that still has its default value, take the value resolved for this state.
fn merge_ctx(deviated: &Value, default: &Value, resolved: &Value) -> Value {
    match (deviated, default, resolved) {
        (Value::Object(d), Value::Object(o), Value::Object(r)) => {
            let mut out = d.clone();
            for (k, v) in d {
                if o.get(k) == Some(v) {
                    if let Some(n) = r.get(k) {
                        out.insert(k.clone(), n.clone());
                    }
                }
            }
            Value::Object(out)
        }
        (Value::Array(d), Value::Array(o), Value::Array(r)) => Value::Array(d.iter().enumerate().map(|(i, v)| if o.get(i) == Some(v) { r.get(i).cloned().unwrap_or(v.clone()) } else { v.clone() }).collect()),
        _ => deviated.clone(),
    }
}

/// Transport level: malformed HTTP bodies against a real server started with start(); every one
/// must be answered (any status) and the server must still serve afterwards.
fn transport_pass() -> (u64, Vec<(String, String)>, Vec<String>) {
    use crate::wire::*;
    let mut bad = Vec::new();
    let mut errors = Vec::new();
    let dir = crate::inst::fresh_dir();
    let mut srv = match start_server(&ServerCfg { dir: dir.clone(), auth: false, network: "regtest".into(), traces: true }) {
        Ok(s) => s,
        Err(e) => return (0, bad, vec![format!("transport pass: server did not start: {}", e)]),
    };
    let deep = |n: usize| format!("{}1{}", "[".repeat(n), "]".repeat(n));
    let big = format!(r#"{{"jsonrpc":"2.0","id":1,"method":"web3_sha3","params":["0x{}"]}}"#, "ab".repeat(6 * 1024 * 1024));
    let batch = |n: usize| format!("[{}]", (0..n).map(|i| format!(r#"{{"jsonrpc":"2.0","id":{},"method":"eth_blockNumber","params":[]}}"#, i)).collect::<Vec<_>>().join(","));
    let bodies: Vec<(String, String)> = vec![
        ("empty body".into(), "".into()),
        ("not json".into(), "hello".into()),
        ("truncated json".into(), r#"{"jsonrpc":"2.0","id":1,"method":"eth_blockNu"#.into()),
        ("json null".into(), "null".into()),
        ("json number".into(), "7".into()),
        ("empty batch".into(), "[]".into()),
        ("batch of scalars".into(), "[1,2,3]".into()),
        ("batch of 50".into(), batch(50)),
        ("batch of 51 (over the limit)".into(), batch(51)),
        ("batch of 2000".into(), batch(2000)),
        ("method not a string".into(), r#"{"jsonrpc":"2.0","id":1,"method":7,"params":[]}"#.into()),
        ("params a string".into(), r#"{"jsonrpc":"2.0","id":1,"method":"eth_blockNumber","params":"x"}"#.into()),
        ("id an object".into(), r#"{"jsonrpc":"2.0","id":{"a":1},"method":"eth_blockNumber","params":[]}"#.into()),
        ("no jsonrpc field".into(), r#"{"id":1,"method":"eth_blockNumber","params":[]}"#.into()),
        ("duplicate keys".into(), r#"{"jsonrpc":"2.0","id":1,"id":2,"method":"eth_blockNumber","method":"brc20_mine","params":[]}"#.into()),
        ("unknown method".into(), r#"{"jsonrpc":"2.0","id":1,"method":"nope","params":[]}"#.into()),
        ("very long method name".into(), format!(r#"{{"jsonrpc":"2.0","id":1,"method":"{}","params":[]}}"#, "m".repeat(200_000))),
        ("nul and escapes".into(), r#"{"jsonrpc":"2.0","id":1,"method":"web3_sha3","params":["\u0000\ud800"]}"#.into()),
        ("nesting 200".into(), format!(r#"{{"jsonrpc":"2.0","id":1,"method":"eth_getLogs","params":{}}}"#, deep(200))),
        ("nesting 100000".into(), format!(r#"{{"jsonrpc":"2.0","id":1,"method":"eth_getLogs","params":{}}}"#, deep(100_000))),
        ("12 MiB body (over the request limit)".into(), big),
        ("invalid utf-8".into(), String::from_utf8_lossy(&[0x7b, 0x22, 0xff, 0xfe, 0x22, 0x7d]).to_string()),
    ];
    let mut n = 0u64;
    for (name, b) in &bodies {
        n += 1;
        if let Err(e) = http(&srv.addr, None, b) {
            // a closed connection is an answer of the transport as long as the server stays up
            if !e.contains("reset") && !e.contains("Broken pipe") && !e.contains("closed") {
                bad.push((format!("transport: {}", name), format!("no HTTP answer to a request with {}: {}", name, e)));
            }
        }
        let live = rpc(&srv.addr, None, "eth_blockNumber", &json!([]));
        if live.get("result").is_none() {
            bad.push((format!("transport: {}", name), format!("after a request with {} the server no longer answers eth_blockNumber: {}", name, live)));
            break;
        }
    }
    let m = rpc(&srv.addr, None, "brc20_mine", &json!([1, 5]));
    if m.get("error").is_some() || m.get("transport_error").is_some() {
        errors.push(format!("transport pass: brc20_mine afterwards: {}", m));
    }
    srv.stop();
    remove_dir(&dir);
    (n, bad, errors)
}

struct Running {
    child: std::process::Child,
    rx: mpsc::Receiver<String>,
    shard: u64,
    current: Option<(u64, String)>,
    last: Instant,
    skip: BTreeSet<u64>,
    /// cases below this id are finished (a worker runs its cases in increasing order)
    resume: u64,
    done: bool,
}

fn spawn(tier: &str, shard: u64, n: u64, seed: u64, skip: &BTreeSet<u64>, resume: u64) -> (std::process::Child, mpsc::Receiver<String>) {
    let exe = std::env::current_exe().unwrap();
    let mut c = std::process::Command::new(exe);
    c.arg("worker").arg("C09").arg(tier).arg(shard.to_string()).arg(n.to_string()).arg("0").arg(seed.to_string()).arg("0");
    c.arg(format!("skip={}", skip.iter().map(|x| x.to_string()).collect::<Vec<_>>().join(",")));
    c.arg(format!("resume={}", resume));
    c.stdout(std::process::Stdio::piped()).stderr(std::process::Stdio::null());
    let mut child = c.spawn().expect("spawn");
    let so = child.stdout.take().unwrap();
    let (tx, rx) = mpsc::channel();
    std::thread::spawn(move || {
        for l in BufReader::new(so).lines().map_while(Result::ok) {
            if tx.send(l).is_err() {
                break;
            }
        }
    });
    (child, rx)
}

/// 1 on a machine that is not overloaded, load / cores above that (at most 4)
fn load_factor() -> f64 {
    let load = std::fs::read_to_string("/proc/loadavg").ok().and_then(|s| s.split_whitespace().next().and_then(|x| x.parse::<f64>().ok())).unwrap_or(0.0);
    let cores = std::thread::available_parallelism().map(|n| n.get()).unwrap_or(16) as f64;
    (load / cores).clamp(1.0, 4.0)
}

/// Requests that only misbehave in a state built by earlier requests: every read method over the universe after every
/// history of the chain-coherence alphabet (multi-transaction blocks, failing / refused / duplicated transactions,
/// drains, empty blocks, commit, reorg). Worker id `C09H`.
pub fn history_scenarios(tier: &str) -> Vec<crate::hist::Scenario> {
    let mut v = super::c06::scenarios(tier);
    for sc in v.iter_mut() {
        sc.name = "reads-after-histories".into();
        sc.opts = crate::explore::Opts::new("C09", "reads-after-histories");
        sc.opts.nf_compare = false;
        sc.opts.err_unchanged = false;
        sc.opts.check_expect = false;
        sc.opts.observe_only = true;
        sc.bounds.depth = if tier == "thorough" { 4 } else { 3 };
    }
    v
}

pub fn run(tier: &str, seed: u64) -> i32 {
    let t0 = Instant::now();
    crate::inst::cleanup_stale_scratch();
    let n: u64 = 16;
    let watchdog = Duration::from_secs(if tier == "thorough" { 20 } else { 9 });
    let total_cases = cases(tier, seed).len() as u64;
    let mut runs: Vec<Running> = (0..n)
        .map(|i| {
            let (child, rx) = spawn(tier, i, n, seed, &BTreeSet::new(), 0);
            Running { child, rx, shard: i, current: None, last: Instant::now(), skip: BTreeSet::new(), resume: 0, done: false }
        })
        .collect();
    let mut merged = WStats::default();
    let mut hangs: Vec<(u64, String)> = Vec::new();
    let mut errors: Vec<String> = Vec::new();
    // statistics of killed workers are lost except for what the parent tracks itself
    let mut parent_done: u64 = 0;
    let mut stalls_between_cases = 0u64;
    while runs.iter().any(|r| !r.done) {
        for r in runs.iter_mut().filter(|r| !r.done) {
            loop {
                match r.rx.try_recv() {
                    Ok(l) => {
                        r.last = Instant::now();
                        if let Some(x) = l.strip_prefix("@@CASE ") {
                            let (id, what) = x.split_once(' ').unwrap_or((x, ""));
                            r.current = Some((id.parse().unwrap_or(0), what.to_string()));
                        } else if l.starts_with("@@DONE ") {
                            // (a worker restarted after a stall continues behind the last finished case)
                            if let Some((id, _)) = &r.current {
                                r.resume = r.resume.max(id + 1);
                            }
                            r.current = None;
                            parent_done += 1;
                        } else if let Some(x) = l.strip_prefix("@@RESULT ") {
                            match serde_json::from_str::<WStats>(x) {
                                Ok(s) => {
                                    merged.cases += s.cases;
                                    merged.ok += s.ok;
                                    merged.errors += s.errors;
                                    merged.panics.extend(s.panics);
                                    merged.wedges.extend(s.wedges);
                                    for (k, v) in s.by_method {
                                        *merged.by_method.entry(k).or_insert(0) += v;
                                    }
                                    merged.samples.extend(s.samples);
                                }
                                Err(e) => errors.push(format!("worker {} result: {}", r.shard, e)),
                            }
                            r.done = true;
                            let _ = r.child.wait();
                        }
                    }
                    Err(mpsc::TryRecvError::Empty) => break,
                    Err(mpsc::TryRecvError::Disconnected) => {
                        if !r.done {
                            // died without a result (abort, out of memory): treat the current case as a crash
                            let _ = r.child.wait();
                            match r.current.take() {
                                Some((id, what)) => {
                                    merged.panics.push((id, what.clone(), "the worker process died while serving this request".into()));
                                    r.skip.insert(id);
                                    r.resume = id + 1;
                                    let (c, rx) = spawn(tier, r.shard, n, seed, &r.skip, r.resume);
                                    r.child = c;
                                    r.rx = rx;
                                    r.last = Instant::now();
                                }
                                None => {
                                    errors.push(format!("worker {} exited without a result", r.shard));
                                    r.done = true;
                                }
                            }
                        }
                        break;
                    }
                }
            }
            // the limit is stretched when the machine is overloaded (1-minute load above the core count): a
            // starved worker is not a hanging request
            if !r.done && r.last.elapsed() > watchdog.mul_f64(load_factor()) {
                // no progress: the request does not terminate
                let _ = r.child.kill();
                let _ = r.child.wait();
                match r.current.take() {
                    Some((id, what)) => {
                        hangs.push((id, what));
                        r.skip.insert(id);
                        r.resume = id + 1;
                    }
                    None => {
                        stalls_between_cases += 1;
                        if stalls_between_cases > 6 {
                            errors.push(format!("worker {} stalled between cases (more than 6 such stalls in this run)", r.shard));
                        }
                    }
                }
                let (c, rx) = spawn(tier, r.shard, n, seed, &r.skip, r.resume);
                r.child = c;
                r.rx = rx;
                r.last = Instant::now();
            }
        }
        std::thread::sleep(Duration::from_millis(20));
    }
    let (transport_cases, transport_bad, transport_errors) = transport_pass();
    errors.extend(transport_errors);
    // reads after histories (hist workers)
    let hp = crate::hist::ParentCfg {
        property: "C09H".into(), tier: tier.to_string(), level: "exploration".into(), nworkers: 16, budget_s: if tier == "thorough" { 240.0 } else { 14.0 }, seed, validate_total: 0,
        rule: String::new(), assumptions: vec![], extra: vec![], groups: vec!["regtest/true".into()], extra_pass: std::cell::RefCell::new(None),
    };
    let (hstats, herrors) = crate::hist::spawn_workers(&hp);
    errors.extend(herrors);
    let mut history_paths = 0u64;
    let mut history_complete = true;
    let mut history_violations: Vec<Violation> = Vec::new();
    for (_, st) in hstats {
        history_paths += st.paths;
        history_complete &= st.complete;
        errors.extend(st.machinery_errors.iter().cloned());
        history_violations.extend(st.violations.into_iter().take(5));
    }
    crate::inst::cleanup_stale_scratch();
    let mut vs: Vec<Violation> = Vec::new();
    for (what, d) in &transport_bad {
        vs.push(Violation { property: "C09".into(), kind: "wedged".into(), scenario: "transport".into(), start: "".into(), path: vec!["transport".into(), what.clone()], steps: vec![], detail: d.clone() });
    }
    for (id, what, d) in &merged.panics {
        vs.push(Violation { property: "C09".into(), kind: "panic".into(), scenario: "requests".into(), start: "".into(), path: vec![format!("case {}", id), what.clone()], steps: vec![], detail: d.clone() });
    }
    vs.extend(history_violations);
    for (id, what, d) in &merged.wedges {
        vs.push(Violation { property: "C09".into(), kind: "wedged".into(), scenario: "requests".into(), start: "".into(), path: vec![format!("case {}", id), what.clone()], steps: vec![], detail: d.clone() });
    }
    for (id, what) in &hangs {
        vs.push(Violation { property: "C09".into(), kind: "hang".into(), scenario: "requests".into(), start: "".into(), path: vec![format!("case {}", id), what.clone()], steps: vec![], detail: format!("no answer within {} s: {}{}", watchdog.as_secs(), what, if what.contains("brc20_mine") && ["0=4294967295", "0=9223372036854775808", "0=18446744073709551615"].iter().any(|x| what.contains(x)) { " [huge block_count]" } else { "" }) });
    }
    let (new, known) = crate::evidence::triage("C09", vs);
    let mut ev = Evidence::new("C09", tier, seed, "exploration");
    ev.coverage = json!({
        "evaluations": parent_done.max(merged.cases) + history_paths, "distinct_nontrivial": total_cases,
        "reads_after_histories": {"histories": history_paths, "complete": history_complete, "what": "every read method over the universe after every history of the chain-coherence alphabet (depth 3, thorough 4): none may panic"},
        "rule": "request grid: for every registered method a valid default request and every request with one parameter (thorough: also two) deviating over a fixed menu (boundary integers, negative, float, empty / odd / non-hex / huge strings, every base64 prefix, truncated frame, bombs, null / bool / array / object, missing), in 3 (quick) / 6 (thorough) engine states; code paths: every byte string of length <= 2 (quick: all of length <= 1 and a rotating 1/16 slice of length 2) as init code, as runtime code, as call data and as input to each custom precompile; ABI grids of the custom precompiles directly and through a contract; 0xfc / 0xfd with complete override sets. Each case runs on the real dispatch table in a watched worker process; after every state-building case, after every panic and every 512 cases a liveness round (eth_blockNumber, brc20_clearCaches, brc20_mine, eth_getBlockByNumber) must succeed. distinct = enumerated cases",
        "samples": merged.samples.iter().take(8).collect::<Vec<_>>(),
        "cases_enumerated": total_cases, "answered_ok": merged.ok, "answered_error": merged.errors, "panics": merged.panics.len(), "wedges": merged.wedges.len(), "hangs": hangs.len(),
        "transport_level_malformed_requests": transport_cases, "cases_by_method": merged.by_method, "exhaustive": true, "machinery_errors": errors,
    });
    ev.assumptions = vec!["the grid is issued through the real dispatch table (parameter decoding and handler bodies) in process; the HTTP transport is exercised by a separate pass of 22 malformed bodies (not JSON, truncated, over-size, over-long batch, deep nesting, wrong types) against a server started with start()".into(), "Bitcoin-RPC-backed precompile paths are only entered with complete transaction overrides (loss of the node is out of scope)".into()];
    ev.violations = new.len() as i64;
    ev.wall_s = t0.elapsed().as_secs_f64();
    ev.write();
    println!("C09 {}: cases={} ok={} errors={} panics={} wedges={} hangs={} wall={:.1}s", tier, total_cases, merged.ok, merged.errors, merged.panics.len(), merged.wedges.len(), hangs.len(), ev.wall_s);
    let mut seen = BTreeSet::new();
    for (id, _) in &known {
        if seen.insert(id.clone()) {
            println!("KNOWN-FINDING: property=C09 {}", id);
        }
    }
    if !new.is_empty() {
        let mut groups: BTreeMap<String, (u64, String)> = BTreeMap::new();
        for v in &new {
            let what = v.path.get(1).cloned().unwrap_or_default();
            let key = format!("{} {}", v.kind, what.split(' ').take(4).collect::<Vec<_>>().join(" "));
            let e = groups.entry(key).or_insert((0, what));
            e.0 += 1;
        }
        for (k, (n, ex)) in &groups {
            println!("  summary: {} x {} (e.g. {})", n, k, trunc(ex, 200));
        }
        for v in new.iter().take(12) {
            println!("VIOLATION property=C09 replay={}", crate::evidence::write_replay(v));
            println!("  {} {:?}\n  {}", v.kind, v.path, trunc(&v.detail, 700));
        }
        return 1;
    }
    if !errors.is_empty() {
        for e in errors.iter().take(5) {
            eprintln!("MACHINERY-ERROR: {}", e);
        }
        return 3;
    }
    0
}
