pub mod c01;
pub mod c02;
pub mod c03;
pub mod c05;
pub mod c10;
pub mod common;
