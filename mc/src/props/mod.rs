pub mod c01;
pub mod common;
