//! C01 — an accepted reorg restores exactly the state as of the chosen block.
use super::common::*;
use crate::explore::*;
use crate::hist::Scenario;
use crate::world::*;

pub fn scenarios(tier: &str) -> Vec<Scenario> {
    let thorough = tier == "thorough";
    let mut v = Vec::new();
    // ---- C01-window: deep, narrow -------------------------------------------------------------
    let set1 = m_block("B(set0=1)", vec![s_set(0, 0, 1)]);
    let set2 = m_block("B(set0=2)", vec![s_set(0, 0, 2)]);
    let m1 = m_mine(1);
    let mw = m_mine(W - 1);
    let window_alpha = vec![
        set1.clone(), set2.clone(), m1.clone(), mw.clone(),
        m_commit(0),
        m_reorg(1, RTarget::Back(1)), m_reorg(1, RTarget::Back(2)), m_reorg(1, RTarget::Back(W)), m_reorg(1, RTarget::Back(W + 1)), m_reorg(1, RTarget::Abs(0)),
    ];
    let base = start_with_s();
    let seed = |name: &str, ms: Vec<&Macro>| -> (String, Vec<Step>) {
        let mut s = base.clone();
        for m in ms {
            s.extend(m.steps.clone());
        }
        (name.to_string(), s)
    };
    let c = m_commit(0);
    let rb1 = m_reorg(1, RTarget::Back(1));
    let rb5 = m_reorg(1, RTarget::Back(5));
    let seeds = vec![
        seed("two versions one block apart, idle W-1, third version", vec![&set1, &set2, &mw, &set1]),
        seed("committed at W+2 with three uncommitted blocks on top", vec![&set1, &mw, &m1, &c, &set2, &m1, &m1]),
        seed("key idle W+1 blocks then touched", vec![&set1, &mw, &m1, &m1, &set2]),
        seed("reorged once and regrown", vec![&set1, &set2, &rb1, &set2, &m1]),
        seed("highest finalised above the current height", vec![&set1, &mw, &set2, &rb5]),
        seed("versions W and W+1 blocks apart, committed", vec![&set1, &m1, &set2, &mw, &set1, &c]),
    ];
    let mut starts = vec![("S deployed in block 1".to_string(), base.clone())];
    v.push(Scenario {
        name: "window-from-start".into(),
        opts: Opts::new("C01", "window"),
        starts: starts.clone(),
        alphabet: window_alpha.clone(),
        bounds: Bounds { depth: if thorough { 6 } else { 4 }, dev: vec![1, 2], dev_total: 3 },
        weight: if thorough { 6.0 } else { 2.0 },
        network: "regtest".into(),
        traces: true,
    });
    starts = seeds;
    v.push(Scenario {
        name: "window-from-seeds".into(),
        opts: Opts::new("C01", "window"),
        starts,
        alphabet: window_alpha,
        bounds: Bounds { depth: if thorough { 4 } else { 3 }, dev: vec![if thorough { 2 } else { 1 }, if thorough { 3 } else { 2 }], dev_total: if thorough { 4 } else { 2 } },
        weight: 1.0,
        network: "regtest".into(),
        traces: true,
    });
    // ---- C01-tables: shallow, wide ------------------------------------------------------------
    let tables_alpha = vec![
        set1,
        m_block("B(set0=0,wide=0)", vec![s_set(0, 0, 0), s_setwide(1, 0)]),
        m_block("B(set0=1,set1=1,wide=5)", vec![s_set(0, 0, 1), s_set(1, 1, 1), s_setwide(2, 5)]),
        m_block("B(create, S by inscription id: set2=7)", vec![s_call(1, vec![2]), s_by_insc(2, crate::asm::s_set(2, 7, 1, [7, 0, 0, 0]))]),
        m_block("B(die)", vec![s_call(1, vec![3])]),
        // the same deployer nonce used for different code on different branches: one address, two contracts
        m_block("B(p4 deploys a copy of S, called)", vec![TxSpec::Deploy { pk: 4, code: crate::asm::s_initcode(), len: DEFAULT_LEN }, TxSpec::Call { pk: 1, tgt: Tgt::Created { pk: 4, nonce: 0 }, data: crate::asm::s_set(0, 3, 1, [3, 0, 0, 0]), len: DEFAULT_LEN }]),
        m_block("B(p4 deploys the context probe, called)", vec![TxSpec::Deploy { pk: 4, code: crate::asm::ctx_initcode(), len: DEFAULT_LEN }, TxSpec::Call { pk: 1, tgt: Tgt::Created { pk: 4, nonce: 0 }, data: vec![0], len: DEFAULT_LEN }]),
        m_block("B(deposit)", vec![TxSpec::Deposit { pk: 1, ticker: "ordi".into(), amount: "0x5".into() }]),
        m_block("B(T(s0,n1))", vec![TxSpec::Transact { signer: 0, nonce: 1, tgt: Tgt::s(), data: crate::asm::s_set(1, 3, 0, [0; 4]), len: DEFAULT_LEN }]),
        m_block("B(T(s0,n0))", vec![TxSpec::Transact { signer: 0, nonce: 0, tgt: Tgt::s(), data: crate::asm::s_set(1, 4, 0, [0; 4]), len: DEFAULT_LEN }]),
        m1,
        mw,
        m_commit(0),
        m_reorg(1, RTarget::Back(1)), m_reorg(1, RTarget::Back(2)), m_reorg(1, RTarget::Fwd(0)), m_reorg(1, RTarget::Fwd(1)),
    ];
    v.push(Scenario {
        name: "tables".into(),
        opts: Opts::new("C01", "tables"),
        starts: vec![("S deployed in block 1".to_string(), base)],
        alphabet: tables_alpha,
        bounds: Bounds { depth: if thorough { 5 } else { 3 }, dev: vec![1, 2], dev_total: if thorough { 3 } else { 2 } },
        weight: if thorough { 6.0 } else { 2.0 },
        network: "regtest".into(),
        traces: true,
    });
    // ---- C01-pool-window: writes to the pending pool that are made for the block under construction
    // without opening it (a parked / replaced signed transaction), at the window edge ----------------
    let park = |name: &str, nonce: u64, v: u8| mac(name, Kind::Growth, vec![Step::Tx(TxSpec::Transact { signer: 0, nonce, tgt: Tgt::s(), data: crate::asm::s_set(1, v, 0, [0; 4]), len: DEFAULT_LEN })]);
    let pool_alpha = vec![
        m_block("B(T(s0,n1))", vec![TxSpec::Transact { signer: 0, nonce: 1, tgt: Tgt::s(), data: crate::asm::s_set(1, 3, 0, [0; 4]), len: DEFAULT_LEN }]),
        park("park(s0,n1)'", 1, 9),
        park("park(s0,n2)", 2, 5),
        m_mine(1),
        m_mine(W - 1),
        m_commit(0),
        m_reorg(1, RTarget::Back(1)), m_reorg(1, RTarget::Back(W - 1)), m_reorg(1, RTarget::Back(W)), m_reorg(1, RTarget::Back(W + 1)), m_reorg(1, RTarget::Fwd(0)),
    ];
    // a transaction parked in block 2 and nine empty blocks: the next block is the one whose finalisation
    // expires it
    let mut about_to_expire = start_with_s();
    about_to_expire.extend(pool_alpha[0].steps.clone());
    about_to_expire.push(Step::Mine(P_BLOCKS - 1));
    // (the reorg to the current height and the start state in which the parked transaction is about to expire have a
    // scenario of their own, one step shallower)
    let pool_alpha_main: Vec<Macro> = pool_alpha.iter().filter(|m| m.name != "R+0").cloned().collect();
    v.push(Scenario {
        name: "pool-window".into(),
        opts: Opts::new("C01", "pool-window"),
        starts: vec![("S deployed in block 1".to_string(), start_with_s())],
        alphabet: pool_alpha_main,
        bounds: Bounds { depth: if thorough { 6 } else { 4 }, dev: vec![1, 2], dev_total: 2 },
        weight: if thorough { 4.0 } else { 2.0 },
        network: "regtest".into(),
        traces: true,
    });
    v.push(Scenario {
        name: "pool-expiry".into(),
        opts: Opts::new("C01", "pool-window"),
        starts: vec![("nonce 1 parked in block 2, expiring with the next block".to_string(), about_to_expire), ("S deployed in block 1".to_string(), start_with_s())],
        alphabet: pool_alpha,
        bounds: Bounds { depth: if thorough { 5 } else { 3 }, dev: vec![1, 2], dev_total: 2 },
        weight: 1.0,
        network: "regtest".into(),
        traces: true,
    });
    v
}
