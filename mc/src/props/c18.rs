//! C18 — eth_getLogs returns exactly the matching logs, in chain order.
//! In every boundary state of the explored histories the complete filter grid is compared with a
//! reference filter over the receipts the indexer was handed.
use super::common::*;
use crate::explore::*;
use crate::hist::Scenario;
use crate::inst::Inst;
use crate::util::*;
use crate::world::*;
use serde_json::{json, Value};

fn topic(b: u8) -> String {
    let mut t = [0u8; 32];
    t[31] = b;
    hx(&t)
}

#[derive(Clone, Debug)]
enum Tf {
    Null,
    One(String),
    Any(Vec<String>),
    /// a list with a null inside: the null is not a wildcard there (the code documents it as ignored)
    AnyWithNull(Vec<Option<String>>),
}

fn tf_json(t: &Tf) -> Value {
    match t {
        Tf::Null => Value::Null,
        Tf::One(s) => json!(s),
        Tf::Any(v) => json!(v),
        Tf::AnyWithNull(v) => json!(v),
    }
}

fn matches(log: &Value, addr: &Option<String>, topics: &[Tf]) -> bool {
    if let Some(a) = addr {
        if log["address"].as_str().map(|x| x.to_lowercase()) != Some(a.to_lowercase()) {
            return false;
        }
    }
    let lt: Vec<String> = log["topics"].as_array().map(|a| a.iter().map(|t| t.as_str().unwrap_or("").to_string()).collect()).unwrap_or_default();
    for (i, f) in topics.iter().enumerate() {
        match f {
            Tf::Null => {}
            Tf::One(t) => {
                if lt.len() <= i || &lt[i] != t {
                    return false;
                }
            }
            Tf::Any(v) => {
                if lt.len() <= i || !v.contains(&lt[i]) {
                    return false;
                }
            }
            Tf::AnyWithNull(v) => {
                if lt.len() <= i || !v.iter().flatten().any(|t| *t == lt[i]) {
                    return false;
                }
            }
        }
    }
    true
}

fn grid(opts: &[Tf], max_len: usize) -> Vec<Vec<Tf>> {
    let mut all: Vec<Vec<Tf>> = vec![vec![]];
    let mut cur: Vec<Vec<Tf>> = vec![vec![]];
    for _ in 0..max_len {
        let mut next = Vec::new();
        for c in &cur {
            for o in opts {
                let mut n = c.clone();
                n.push(o.clone());
                next.push(n);
            }
        }
        all.extend(next.iter().cloned());
        cur = next;
    }
    all
}

/// full-width topics that differ from each other in their first byte only, in their last byte only, or in both
fn wide_topic(first: u8, last: u8) -> String {
    let mut t = [0x5au8; 32];
    t[0] = first;
    t[31] = last;
    hx(&t)
}

fn wide_topic_filters() -> Vec<Vec<Tf>> {
    let opts = vec![Tf::Null, Tf::One(wide_topic(0x80, 1)), Tf::One(wide_topic(0x70, 1)), Tf::One(wide_topic(0x80, 2)), Tf::Any(vec![wide_topic(0x70, 1), wide_topic(0x80, 2)]), Tf::One(topic(1))];
    grid(&opts, 2).into_iter().filter(|f| f.iter().any(|t| !matches!(t, Tf::Null))).collect()
}

fn topic_filters(max_len: usize) -> Vec<Vec<Tf>> {
    // lists that can fail (a single alternative; one alternative that no log carries) as well as one that
    // always matches: a later list position must not override an earlier failed one
    let opts = vec![Tf::Null, Tf::One(topic(1)), Tf::One(topic(2)), Tf::Any(vec![topic(1), topic(2)]), Tf::Any(vec![topic(1)]), Tf::Any(vec![topic(2), topic(3)])];
    let mut all = grid(&opts, max_len);
    // a list with a null inside, at the first two positions, combined with every other option
    let mut with_null = opts.clone();
    with_null.push(Tf::AnyWithNull(vec![None, Some(topic(1))]));
    all.extend(grid(&with_null, 2.min(max_len)).into_iter().filter(|f| f.iter().any(|t| matches!(t, Tf::AnyWithNull(_)))));
    all.extend(wide_topic_filters());
    all
}

fn check_logs(inst: &mut Inst, world: &World, topic_len: usize) -> Vec<(String, String)> {
    let mut bad: Vec<(String, String)> = Vec::new();
    if world.count() != 0 {
        return bad;
    }
    let Some(h) = world.h else { return bad };
    // logs per block from the receipts the indexer holds
    let blocks = super::c06::expected_blocks_with_genesis(inst, world);
    let logs_of = |b: u64| -> Vec<Value> {
        blocks.iter().filter(|(hh, _, _)| *hh == b).flat_map(|(_, _, rc)| rc.iter().flat_map(|(_, r)| r["logs"].as_array().cloned().unwrap_or_default())).collect()
    };
    let s1 = Tgt::s().resolve().unwrap();
    let s2 = Tgt::Created { pk: 1, nonce: 0 }.resolve().unwrap();
    let addrs: Vec<Option<String>> = vec![None, Some(s1), Some(s2), Some("0x00000000000000000000000000000000000000ee".into())];
    // ranges: (from, to) as Option<u64>
    let mut ranges: Vec<(Option<u64>, Option<u64>)> = vec![(None, None), (Some(h), None), (Some(h), Some(h)), (Some(0), Some(0))];
    for w in 1..=6u64 {
        ranges.push((Some(h.saturating_sub(w)), Some(h)));
    }
    // ranges that end below the head (the block after the range exists and must not leak in)
    if h >= 1 {
        ranges.push((Some(h - 1), Some(h - 1)));
        ranges.push((Some(0), Some((h - 1).min(5))));
    }
    if h >= 2 {
        ranges.push((Some(h - 2), Some(h - 1)));
        ranges.push((Some(h - 2), Some(h - 2)));
    }
    ranges.push((Some(0), Some(5)));
    ranges.push((Some(0), Some(6)));
    ranges.push((Some(h), Some(h + 3)));
    // ranges that start inside the chain and end far beyond the head: still wider than six blocks, still refused
    ranges.push((Some(h.saturating_sub(4)), Some(h + 5)));
    ranges.push((Some(h.saturating_sub(3)), Some(1u64 << 40)));
    ranges.push((Some(h.saturating_sub(5)), Some(h + 1)));
    ranges.push((Some(h + 1), Some(h + 2)));
    ranges.push((Some(h), Some(h.saturating_sub(1))));
    ranges.push((None, Some(h)));
    ranges.dedup();
    let tfs = topic_filters(topic_len);
    let tfs_short = topic_filters(1);
    let mut evaluated = 0u64;
    let mut nonempty = 0u64;
    // (fromBlock text, toBlock text, resolved from, resolved to, topic filters to use)
    let mut queries: Vec<(Option<String>, Option<String>, u64, u64, &Vec<Vec<Tf>>)> = Vec::new();
    for (f, t) in &ranges {
        let from = f.unwrap_or(h);
        let to = t.unwrap_or(from);
        queries.push((f.map(|f| format!("{}", f)), t.map(|t| format!("0x{:x}", t)), from, to, &tfs));
    }
    // block tags: latest = safe = finalized = the head, pending = the next height, earliest = 0
    let tag = |s: &str| -> u64 {
        match s {
            "earliest" => 0,
            "pending" => h + 1,
            _ => h,
        }
    };
    for (f, t) in [(Some("latest"), Some("latest")), (Some("earliest"), Some("latest")), (Some("earliest"), Some("0x5")), (Some("latest"), Some("pending")), (Some("safe"), None), (Some("finalized"), Some("finalized")), (None, Some("pending")), (Some("pending"), Some("pending")), (Some("earliest"), Some("earliest"))] {
        let from = f.map(tag).unwrap_or(h);
        let to = match t {
            Some("0x5") => 5,
            Some(x) => tag(x),
            None => from,
        };
        queries.push((f.map(|x| x.to_string()), t.map(|x| x.to_string()), from, to, &tfs_short));
    }
    for (ftext, ttext, from, to, tfs) in &queries {
        let (from, to) = (*from, *to);
        let reversed = to < from;
        let too_wide = !reversed && to - from > 5;
        let in_range: Vec<Value> = if reversed || too_wide { vec![] } else { (from..=to).flat_map(|b| logs_of(b)).collect() };
        for (ai, a) in addrs.iter().enumerate() {
            for (ti, tf) in tfs.iter().enumerate() {
                // a range that has to be refused (or is not prescribed) is refused whatever the filter: a few filters
                if (reversed || too_wide) && (ai > 1 || ti > 5) {
                    continue;
                }
                let mut filter = serde_json::Map::new();
                if let Some(f) = ftext {
                    filter.insert("fromBlock".into(), json!(f));
                }
                if let Some(t) = ttext {
                    filter.insert("toBlock".into(), json!(t));
                }
                if let Some(a) = a {
                    filter.insert("address".into(), json!(a));
                }
                if !tf.is_empty() {
                    filter.insert("topics".into(), Value::Array(tf.iter().map(tf_json).collect()));
                }
                let r = inst.call("eth_getLogs", json!([Value::Object(filter.clone())]));
                evaluated += 1;
                if reversed {
                    continue; // not prescribed
                }
                if too_wide {
                    if !r.is_err() {
                        bad.push(("wide-range-accepted".into(), format!("eth_getLogs {} spans {} blocks and was answered", Value::Object(filter), to - from + 1)));
                        return bad;
                    }
                    continue;
                }
                let want: Vec<Value> = in_range.iter().filter(|l| matches(l, a, tf)).cloned().collect();
                match r.result().and_then(|x| x.as_array()) {
                    Some(got) => {
                        if !want.is_empty() {
                            nonempty += 1;
                        }
                        if canon(&Value::Array(got.clone())) != canon(&Value::Array(want.clone())) {
                            bad.push(("logs-differ".into(), format!("eth_getLogs {} returned {} logs {:?}, the receipts in range hold {} matching {:?}", Value::Object(filter), got.len(), got.iter().map(|l| format!("{}/{}", l["blockNumber"].as_str().unwrap_or("?"), l["logIndex"].as_str().unwrap_or("?"))).collect::<Vec<_>>(), want.len(), want.iter().map(|l| format!("{}/{}", l["blockNumber"].as_str().unwrap_or("?"), l["logIndex"].as_str().unwrap_or("?"))).collect::<Vec<_>>())));
                            return bad;
                        }
                    }
                    None => {
                        bad.push(("range-refused".into(), format!("eth_getLogs {} over {} blocks was refused: {}", Value::Object(filter), to - from + 1, canon(&r.to_value()))));
                        return bad;
                    }
                }
            }
        }
    }
    bad.push((format!("note:filters.{}", if nonempty > 0 { "with-matches" } else { "no-matches" }), String::new()));
    let _ = evaluated;
    bad
}

fn oracle(sc: &Scenario) -> Option<BoundaryOracle<'static>> {
    let topic_len = if sc.name.contains("full") { 4 } else { 3 };
    Some(Box::new(move |inst: &mut Inst, world: &World, _outs: &[StepOut]| {
        if world.desync {
            return Vec::new();
        }
        check_logs(inst, world, topic_len)
    }))
}

pub fn oracle_factory() -> crate::hist::OracleFactory {
    oracle
}

pub fn scenarios(tier: &str) -> Vec<Scenario> {
    let thorough = tier == "thorough";
    let s2 = Tgt::Created { pk: 1, nonce: 0 };
    let lg = |tgt: Tgt, pk: u8, slot: u8, n: u8, tp: [u8; 4]| TxSpec::Call { pk, tgt, data: crate::asm::s_set(slot, 1, n, tp), len: DEFAULT_LEN };
    let alpha = vec![
        m_block("B(S[1])", vec![lg(Tgt::s(), 0, 0, 1, [1, 0, 0, 0])]),
        m_block("B(S[1,2],S2[2,1,1])", vec![lg(Tgt::s(), 0, 1, 2, [1, 2, 0, 0]), lg(s2.clone(), 2, 0, 3, [2, 1, 1, 0])]),
        m_block("B(S[1,1,1,2],S[],S2[2])", vec![lg(Tgt::s(), 2, 2, 4, [1, 1, 1, 2]), lg(Tgt::s(), 0, 3, 0, [0; 4]), lg(s2.clone(), 0, 1, 1, [2, 0, 0, 0])]),
        m_block("B(S2[2,2],no-log)", vec![lg(s2.clone(), 2, 2, 2, [2, 2, 0, 0]), lg(Tgt::s(), 0, 0, 9, [0; 4])]),
        m_mine(1),
        m_commit(0),
        m_reorg(1, RTarget::Back(1)),
    ];
    let mut base = start_with_s();
    base.extend(block(vec![TxSpec::Deploy { pk: 1, code: crate::asm::s_initcode(), len: DEFAULT_LEN }]));
    // data shapes a short alphabet does not reach: a block with 12 logging transactions (two-digit indexes),
    // a log emitted by another contract than the transaction's target (proxy P forwards to S), a
    // transaction that emits a log and then reverts (R) between two logging ones
    let s_addr = hex::decode(Tgt::s().resolve().unwrap().trim_start_matches("0x")).unwrap();
    let mut p_rt: Vec<u8> = vec![0x36, 0x5f, 0x5f, 0x37, 0x5f, 0x5f, 0x36, 0x5f, 0x5f, 0x73];
    p_rt.extend_from_slice(&s_addr);
    p_rt.extend_from_slice(&[0x5a, 0xf1, 0x50, 0x00]);
    let r_rt: Vec<u8> = vec![0x60, 0x01, 0x5f, 0x5f, 0xa1, 0x5f, 0x5f, 0xfd];
    let p_tgt = Tgt::Created { pk: 3, nonce: 0 };
    let r_tgt = Tgt::Created { pk: 4, nonce: 0 };
    let mut long = base.clone();
    long.extend(block(vec![TxSpec::Deploy { pk: 3, code: crate::asm::initcode(&p_rt), len: DEFAULT_LEN }, TxSpec::Deploy { pk: 4, code: crate::asm::initcode(&r_rt), len: DEFAULT_LEN }]));
    long.extend(block((0..12u8).map(|i| lg(Tgt::s(), 0, i % 4, 1 + (i % 3), [1 + (i % 2), 2, 1, 0])).collect()));
    long.extend(block(vec![
        lg(Tgt::s(), 0, 0, 1, [1, 0, 0, 0]),
        TxSpec::Call { pk: 2, tgt: p_tgt, data: crate::asm::s_set(1, 1, 2, [2, 1, 0, 0]), len: DEFAULT_LEN },
        TxSpec::Call { pk: 2, tgt: r_tgt, data: vec![], len: DEFAULT_LEN },
        lg(s2.clone(), 2, 1, 1, [2, 0, 0, 0]),
    ]));
    // T emits LOG2 with two full-width topics taken from its call data: topics that agree in all but their
    // first or all but their last byte
    let t_rt: Vec<u8> = vec![0x60, 0x20, 0x35, 0x5f, 0x35, 0x5f, 0x5f, 0xa2, 0x00];
    let t_tgt = Tgt::Created { pk: 5, nonce: 0 };
    let wt = |a: (u8, u8), b: (u8, u8)| -> Vec<u8> {
        let mut d = hex::decode(wide_topic(a.0, a.1).trim_start_matches("0x")).unwrap();
        d.extend(hex::decode(wide_topic(b.0, b.1).trim_start_matches("0x")).unwrap());
        d
    };
    long.extend(block(vec![TxSpec::Deploy { pk: 5, code: crate::asm::initcode(&t_rt), len: DEFAULT_LEN }]));
    long.extend(block(vec![
        TxSpec::Call { pk: 0, tgt: t_tgt.clone(), data: wt((0x80, 1), (0x80, 2)), len: DEFAULT_LEN },
        TxSpec::Call { pk: 0, tgt: t_tgt.clone(), data: wt((0x70, 1), (0x80, 2)), len: DEFAULT_LEN },
        TxSpec::Call { pk: 2, tgt: t_tgt.clone(), data: wt((0x80, 2), (0x70, 1)), len: DEFAULT_LEN },
        TxSpec::Call { pk: 2, tgt: t_tgt, data: wt((0x80, 1), (0x80, 1)), len: DEFAULT_LEN },
    ]));
    long.extend(alpha[1].steps.clone());
    long.push(Step::Mine(1));
    long.extend(alpha[2].steps.clone());
    long.push(Step::Commit);
    long.extend(alpha[0].steps.clone());
    let mut opts = Opts::new("C18", "logs");
    opts.nf_compare = false;
    opts.err_unchanged = false;
    vec![
        Scenario {
            name: "logs-grid".into(),
            opts: opts.clone(),
            starts: vec![("S and S2 deployed".into(), base)],
            alphabet: alpha.clone(),
            bounds: Bounds { depth: if thorough { 4 } else { 3 }, dev: vec![1, 1], dev_total: 2 },
            weight: 3.0,
            network: "regtest".into(),
            traces: false,
        },
        Scenario {
            name: "logs-grid-full-topics".into(),
            opts,
            starts: vec![("ten blocks: 12 logging transactions in one, a proxied log and a reverted log in another, full-width topics in a third, logs in three more, partly committed".into(), long)],
            alphabet: alpha,
            bounds: Bounds { depth: if thorough { 2 } else { 1 }, dev: vec![1, 1], dev_total: 2 },
            weight: 1.0,
            network: "regtest".into(),
            traces: false,
        },
    ]
}
