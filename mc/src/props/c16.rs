//! C16 — gas allowance follows inscription size and gas estimates are sufficient.
//! C17 — eth_call predicts what the same transaction will do.
//! Both over one complete grid of generated programs (every sequence of <= 3 statements over 10
//! statement kinds) x call-data values x engine states.
use crate::asm::{Asm, CHILD_INIT};
use crate::evidence::Evidence;
use crate::explore::{trunc, Violation};
use crate::inst::Inst;
use crate::obs;
use crate::props::common::*;
use crate::util::*;
use crate::world::*;
use alloy::primitives::{Bytes, U256};
use alloy::sol_types::SolCall;
use serde::{Deserialize, Serialize};
use serde_json::{json, Value};
use std::collections::BTreeMap;
use std::time::Instant;

alloy::sol! {
    function getLockedPkscript(bytes pkscript, uint256 lock_block_count) returns (bytes locked_pkscript);
}

const KINDS: [&str; 15] = ["sstore", "sload+log", "loop", "call-child", "create", "sha256", "locked-pkscript", "revert", "return", "invalid", "number", "blockhash", "env", "call-spin", "churn"];

fn program(stmts: &[usize]) -> Vec<u8> {
    let mut a = Asm::new();
    let s_addr = hex::decode(Tgt::s().resolve().unwrap().trim_start_matches("0x")).unwrap();
    for (pos, k) in stmts.iter().enumerate() {
        match *k {
            0 => {
                a.push(7 + pos as u64).push(0x10 + pos as u64).op(0x55);
            }
            1 => {
                a.push(0x10).op(0x54).push(0).op(0x52).push(32).push(0).op(0xa0);
            }
            2 => {
                let l = format!("loop{}", pos);
                let e = format!("end{}", pos);
                a.push(0).op(0x35).push(248).op(0x1c);
                a.label(&l).op(0x80).op(0x15).jumpi(&e).push(1).op(0x90).op(0x03).jump(&l);
                a.label(&e).op(0x50);
            }
            3 => {
                // CALL S.set(5, 9, no log); success flag -> mem[0]
                a.push_bytes(&[1, 5, 9, 9, 0, 0, 0, 0]).push(0).op(0x52);
                a.push(0).push(0).push(8).push(24).push(0).push_bytes(&s_addr).op(0x5a).op(0xf1);
                // an inner failure is propagated (a swallowed out-of-gas failure would make the behaviour
                // depend on the remaining gas, which the statements exclude)
                a.op(0x80).op(0x15).jumpi("fail");
                a.push(0).op(0x52);
            }
            4 => {
                a.push_bytes(&CHILD_INIT).push(0).op(0x52);
                a.push(8).push(24).push(0).op(0xf0);
                a.op(0x80).op(0x15).jumpi("fail");
                a.push(0).op(0x52); // child address -> mem[0]
            }
            5 => {
                a.push(32).push(0).push(32).push(0).push(2).op(0x5a).op(0xfa).op(0x15).jumpi("fail");
            }
            6 => {
                // input for 0x..fb is the call data after its first byte
                a.push(1).op(0x36).op(0x03).push(1).push(64).op(0x37); // calldatacopy(64, 1, size-1)
                a.push(32).push(0).push(1).op(0x36).op(0x03).push(64).push(0xfb).op(0x5a).op(0xfa).op(0x15).jumpi("fail");
            }
            7 => {
                a.push(32).push(0).op(0xfd);
            }
            8 => {
                a.push(32).push(0).op(0xf3);
            }
            9 => {
                a.op(0xfe);
            }
            10 => {
                // NUMBER -> mem[0] (the height being built is part of what a simulation must predict)
                a.op(0x43).push(0).op(0x52);
            }
            11 => {
                // BLOCKHASH(NUMBER - 1) -> mem[0]
                a.push(1).op(0x43).op(0x03).op(0x40).push(0).op(0x52);
            }
            13 => {
                // CALL S.spin(0xffff): the callee burns a few million gas, so the call needs about 1/63 more gas
                // to succeed than it finally uses; a failure of the inner call is propagated
                a.push_bytes(&[5, 0xff, 0xff]).push(0).op(0x52);
                a.push(0).push(0).push(3).push(29).push(0).push_bytes(&s_addr).op(0x5a).op(0xf1);
                a.op(0x80).op(0x15).jumpi("fail");
                a.op(0x50);
            }
            14 => {
                // set and clear 8 fresh slots: the refund makes the gas used smaller than the gas needed
                for i in 0..8u64 {
                    a.push(1).push(0x40 + 8 * pos as u64 + i).op(0x55);
                }
                for i in 0..8u64 {
                    a.push(0).push(0x40 + 8 * pos as u64 + i).op(0x55);
                }
            }
            _ => {
                // every environment value the statement does not exclude, hashed into mem[0]: ADDRESS, ORIGIN,
                // CALLER, CALLVALUE, GASPRICE, COINBASE, GASLIMIT, CHAINID, SELFBALANCE, BASEFEE, BLOBBASEFEE,
                // BALANCE(ORIGIN), EXTCODESIZE(CALLER), EXTCODEHASH(ORIGIN), BLOCKHASH(NUMBER - 2)
                let mut i = 0u64;
                for ops in [&[0x30u8][..], &[0x32], &[0x33], &[0x34], &[0x3a], &[0x41], &[0x45], &[0x46], &[0x47], &[0x48], &[0x4a], &[0x32, 0x31], &[0x33, 0x3b], &[0x32, 0x3f]] {
                    for o in ops {
                        a.op(*o);
                    }
                    a.push(0x80 + 32 * i).op(0x52);
                    i += 1;
                }
                a.push(2).op(0x43).op(0x03).op(0x40).push(0x80 + 32 * i).op(0x52);
                i += 1;
                a.push(32 * i).push(0x80).op(0x20).push(0).op(0x52);
            }
        }
    }
    a.op(0x00);
    a.label("fail").push(0).push(0).op(0xfd);
    a.finish()
}

fn all_programs() -> Vec<Vec<usize>> {
    let mut v: Vec<Vec<usize>> = vec![vec![]];
    let mut cur: Vec<Vec<usize>> = vec![vec![]];
    for _ in 0..3 {
        let mut next = Vec::new();
        for p in &cur {
            for k in 0..KINDS.len() {
                let mut q = p.clone();
                q.push(k);
                next.push(q);
            }
        }
        v.extend(next.iter().cloned());
        cur = next;
    }
    v
}

fn calldatas() -> Vec<Vec<u8>> {
    let blob = getLockedPkscriptCall { pkscript: Bytes::from(hex::decode("5120e0e224cd541454519b62047aa0891ea7b81a16598556aeb83a412a0b06a20aab").unwrap()), lock_block_count: U256::from(6u64) }.abi_encode();
    [0u8, 3, 200]
        .iter()
        .map(|n| {
            let mut d = vec![*n];
            d.extend_from_slice(&blob);
            d
        })
        .collect()
}

fn prog_tgt() -> Tgt {
    Tgt::Created { pk: 2, nonce: 0 }
}

fn pre_states(thorough: bool) -> Vec<(String, Vec<Step>)> {
    let base = start_with_s();
    let mut busy = base.clone();
    busy.extend(block(vec![s_set(0, 0, 1), s_call(1, vec![2])]));
    busy.push(Step::Mine(2));
    busy.push(Step::Commit);
    busy.extend(block(vec![s_set(1, 5, 3)]));
    let mut v = vec![("S deployed".into(), base.clone()), ("after a history with commit".into(), busy)];
    if thorough {
        // every history of length <= 2 over a growth alphabet (the chain states of C01)
        let alpha: Vec<(&str, Vec<Step>)> = vec![
            ("B(set0=1)", block(vec![s_set(0, 0, 1)])),
            ("B(set0=2,set1=1)", block(vec![s_set(0, 0, 2), s_set(1, 1, 1)])),
            ("B(create)", block(vec![s_call(1, vec![2])])),
            ("M1", vec![Step::Mine(1)]),
            ("M(W-1)", vec![Step::Mine(W - 1)]),
            ("C", vec![Step::Commit]),
        ];
        for (n1, s1) in &alpha {
            for (n2, s2) in &alpha {
                let mut s = base.clone();
                s.extend(s1.clone());
                s.extend(s2.clone());
                v.push((format!("[{}, {}]", n1, n2), s));
            }
        }
    }
    v
}

#[derive(Default, Serialize, Deserialize)]
pub struct GStats {
    cases: u64,
    sim_success: u64,
    sim_failure: u64,
    estimates: u64,
    lens_checked: u64,
    drained: u64,
    out_of_gas: u64,
    creations: u64,
    violations: Vec<Violation>,
    samples: Vec<Value>,
    errors: Vec<String>,
    complete: bool,
}

fn sim(inst: &mut Inst, from: &str, to: Option<&str>, data: &[u8]) -> (bool, String) {
    sim_with(inst, from, to, data, "data", Value::Null)
}

/// `key`: the request field carrying the call data ("data" or its alias "input"); `tag`: the block parameter
fn sim_with(inst: &mut Inst, from: &str, to: Option<&str>, data: &[u8], key: &str, tag: Value) -> (bool, String) {
    let mut call = json!({"from": from, "to": to});
    call[key] = json!(hx(data));
    let r = inst.call("eth_call", json!([call, tag]));
    match r.result() {
        Some(v) => (true, v.as_str().unwrap_or("").to_string()),
        None => {
            let d = match &r {
                crate::inst::CallOutcome::Resp(v) => v["error"]["data"].as_str().unwrap_or("0x").to_string(),
                _ => "PANIC".into(),
            };
            (false, d)
        }
    }
}

/// submit the call as a transaction in its own block; returns (receipt, trace output)
fn submit(inst: &mut Inst, w: &mut World, tx: &TxSpec) -> (Value, String) {
    let o = w.exec(inst, &Step::Tx(tx.clone()));
    let rc = o.outcome.result().cloned().unwrap_or(Value::Null);
    let th = rc["transactionHash"].clone();
    let tr = inst.call("debug_traceTransaction", json!([th]));
    let out = tr.result().and_then(|t| t["output"].as_str().map(|s| s.to_string())).unwrap_or_else(|| "<no trace>".into());
    w.exec(inst, &Step::Fin);
    (rc, out)
}

/// What a transaction that ran out of its allowance changed besides its sender's account row and its own
/// transaction rows (the global table only holds the highest-block high-water mark).
fn oog_changes(before: &brc20_prog::verif::VerifDump, after: &brc20_prog::verif::VerifDump, sender: &str) -> Vec<String> {
    let la = obs::logical(before);
    let lb = obs::logical(after);
    let mut out = Vec::new();
    for (table, rows) in &lb {
        let empty = BTreeMap::new();
        let old = la.get(table).unwrap_or(&empty);
        let own = ["db_tx", "db_tx_receipt", "db_number_and_index_to_tx_hash", "db_inscription_id_to_tx_hash", "db_tx_trace", "~meta", "db_global_values"].contains(&table.as_str());
        if own {
            continue;
        }
        for (key, val) in rows {
            if old.get(key) != Some(val) {
                let is_sender_account = table == "db_account" && hex::encode(key) == sender.trim_start_matches("0x");
                if !is_sender_account {
                    out.push(format!("{} key {} changed", table, hex::encode(key)));
                }
            }
        }
        for key in old.keys() {
            if !rows.contains_key(key) {
                out.push(format!("{} key {} removed", table, hex::encode(key)));
            }
        }
    }
    out
}

fn hexu(v: &Value) -> u64 {
    v.as_str().and_then(parse_hex_u64).unwrap_or(0)
}

pub fn worker(which: &str, tier: &str, shard: u64, nshards: u64, budget_s: f64) -> GStats {
    crate::inst::set_config("regtest", true);
    let deadline = Instant::now() + std::time::Duration::from_secs_f64(budget_s);
    let thorough = tier == "thorough";
    let mut st = GStats { complete: true, ..Default::default() };
    let progs = all_programs();
    let datas = calldatas();
    let states = pre_states(thorough);
    let mut a = Inst::fresh();
    let mut b = Inst::fresh();
    let sender = addr_s(pk_addr(1));
    let target = prog_tgt().resolve().unwrap();
    let mk = |kind: &str, what: String, detail: String| Violation { property: which.into(), kind: kind.into(), scenario: "programs".into(), start: "".into(), path: vec![what], steps: vec![], detail };
    let mut k = 0u64;
    'outer: for (pi, p) in progs.iter().enumerate() {
        for (si, (sname, steps)) in states.iter().enumerate() {
            if thorough && si >= 2 && (pi + si) % 6 != 0 {
                continue; // the additional chain states take every 6th program each (rotating)
            }
            k += 1;
            if k % nshards != shard {
                continue;
            }
            if Instant::now() > deadline {
                st.complete = false;
                break 'outer;
            }
            let code = program(p);
            let pname = format!("[{}] in state '{}'", p.iter().map(|i| KINDS[*i]).collect::<Vec<_>>().join("; "), sname);
            // build the state on both instances: pre-state, then the program deployed by pkscript 2
            let mut worlds = Vec::new();
            for inst in [&mut a, &mut b] {
                inst.wipe();
                let mut w = World::new();
                for s in steps {
                    w.exec(inst, s);
                }
                worlds.push(w);
            }
            let init = crate::asm::initcode(&code);
            // C17: a simulated creation returns exactly the runtime code the real deployment installs
            let (cs, cdata) = sim(&mut a, &addr_s(pk_addr(2)), None, &init);
            let dep = TxSpec::Deploy { pk: 2, code: init.clone(), len: DEFAULT_LEN };
            let mut dep_ok = true;
            // C16: the estimate for the creation itself (a request without `to`) is sufficient: the twin deploys
            // the program with exactly the estimated allowance
            let mut dep_b = dep.clone();
            let mut creation_est = None;
            if which == "C16" && cs {
                let e = a.call("eth_estimateGas", json!([{"from": addr_s(pk_addr(2)), "data": hx(&init)}, null]));
                match e.result().and_then(|x| x.as_str()).and_then(parse_hex_u64) {
                    Some(g) => {
                        st.estimates += 1;
                        creation_est = Some(g);
                        dep_b = TxSpec::Deploy { pk: 2, code: init.clone(), len: g.div_ceil(GAS_PER_BYTE) };
                    }
                    None => st.violations.push(mk("estimate-fails-although-call-succeeds", format!("creation of {}", pname), format!("the simulated creation succeeds but eth_estimateGas answers {}", canon(&e.to_value())))),
                }
            }
            // C16: the creation itself with allowances of 0, 1, estimate - 1 bytes (and, for every third program, a
            // signed creation): the receipt never records more than the allowance, and a creation that ran out of
            // it changes nothing but the sender's nonce
            if which == "C16" && si == 0 {
                if let Some(g) = creation_est {
                    worlds[1].exec(&mut b, &Step::Commit);
                    let el = g.div_ceil(GAS_PER_BYTE);
                    let before = obs::masked(b.dump());
                    let mut forms: Vec<(TxSpec, String, u64)> = Vec::new();
                    for l in [0u64, 1, el.saturating_sub(1)] {
                        forms.push((TxSpec::Deploy { pk: 2, code: init.clone(), len: l }, addr_s(pk_addr(2)), l));
                        if pi % 3 == 0 {
                            forms.push((TxSpec::Transact { signer: 1, nonce: 0, tgt: Tgt::Create, data: init.clone(), len: l }, addr_s(crate::sign::signer_addr(1)).to_lowercase(), l));
                        }
                    }
                    for (tx, from, l) in forms {
                        st.lens_checked += 1;
                        let allowance = l.saturating_mul(GAS_PER_BYTE);
                        let mut w = worlds[1].clone();
                        let o = w.exec(&mut b, &Step::Tx(tx.clone()));
                        let rc = match o.outcome.result() {
                            Some(Value::Array(rs)) => rs.first().cloned().unwrap_or(Value::Null),
                            Some(v) => v.clone(),
                            None => Value::Null,
                        };
                        let gu = hexu(&rc["gasUsed"]);
                        let what = format!("creation of {} ({}) with inscription length {}", pname, if matches!(tx, TxSpec::Deploy { .. }) { "brc20_deploy" } else { "brc20_transact" }, l);
                        if gu > allowance {
                            st.violations.push(mk("allowance-exceeded", what.clone(), format!("inscription length {} allows {} gas but the receipt records {}", l, allowance, gu)));
                        }
                        if rc["status"].as_str() != Some("0x1") && (gu == allowance || gu == 0) {
                            st.out_of_gas += 1;
                            let after = obs::masked(b.dump());
                            for d in oog_changes(&before, &after, &from) {
                                st.violations.push(mk("out-of-gas-changed-state", what.clone(), format!("allowance {}: the creation failed with gasUsed {} but {}", allowance, gu, d)));
                            }
                        }
                        b.call("brc20_clearCaches", json!([]));
                    }
                }
            }
            let (w0, w1) = worlds.split_at_mut(1);
            for (k, (inst, w)) in [(&mut a, &mut w0[0]), (&mut b, &mut w1[0])].into_iter().enumerate() {
                let (rc, _) = submit(inst, w, if k == 0 { &dep } else { &dep_b });
                if rc["status"].as_str() != Some("0x1") || rc["contractAddress"].as_str().map(|x| x.to_lowercase()) != Some(target.clone()) {
                    dep_ok = false;
                    if k == 1 {
                        if let Some(g) = creation_est {
                            st.violations.push(mk("estimate-insufficient", format!("creation of {}", pname), format!("eth_estimateGas for the creation = {} (inscription length {}): the deployment gave status {} gasUsed {}", g, g.div_ceil(GAS_PER_BYTE), rc["status"], rc["gasUsed"])));
                        }
                    }
                }
            }
            if !dep_ok {
                st.errors.push(format!("program {} could not be deployed", pname));
                continue;
            }
            if which == "C17" {
                st.creations += 1;
                let installed = a.call("eth_getCode", json!([target])).result().and_then(|x| x.as_str().map(|s| s.to_string())).unwrap_or_default();
                if !cs || cdata.trim_start_matches("0x") != installed.trim_start_matches("0x") {
                    st.violations.push(mk("simulated-creation-differs", pname.clone(), format!("eth_call creation returned ({}, {}) but the deployment installed {}", cs, trunc(&cdata, 200), trunc(&installed, 200))));
                }
            }
            // commit, so that clearCaches brings the subject back to exactly this state
            a.call("brc20_commitToDatabase", json!([]));
            worlds[0].exec(&mut a, &Step::Commit);
            for d in &datas {
                st.cases += 1;
                let what = format!("{} call data n={}", pname, d[0]);
                let call = TxSpec::Call { pk: 1, tgt: prog_tgt(), data: d.clone(), len: DEFAULT_LEN };
                let (ok, data) = sim(&mut a, &sender, Some(&target), d);
                if ok {
                    st.sim_success += 1;
                } else {
                    st.sim_failure += 1;
                }
                if which == "C17" {
                    // the transaction executed next, with the same sender / target / data
                    let mut w = worlds[0].clone();
                    let (rc, out) = submit(&mut a, &mut w, &call);
                    let status = rc["status"].as_str() == Some("0x1");
                    if status != ok || out.trim_start_matches("0x") != data.trim_start_matches("0x") {
                        st.violations.push(mk("call-differs-from-transaction", what.clone(), format!("eth_call gave (success {}, data {}) but the transaction gave (status {}, output {})", ok, trunc(&data, 200), rc["status"], trunc(&out, 200))));
                    }
                    a.call("brc20_clearCaches", json!([]));
                } else {
                    // ---- C16 ----
                    let before = obs::masked(a.dump());
                    // ample allowance: what the call really uses
                    let mut w = worlds[0].clone();
                    let (rc_full, out_full) = submit(&mut a, &mut w, &call);
                    let used = hexu(&rc_full["gasUsed"]);
                    a.call("brc20_clearCaches", json!([]));
                    let mut lens: Vec<u64> = vec![0, 1, u64::MAX];
                    let need = used.div_ceil(GAS_PER_BYTE);
                    lens.extend([need.saturating_sub(1), need, need + 1]);
                    let mut est_len = None;
                    if ok {
                        let e = a.call("eth_estimateGas", json!([{"from": sender, "to": target, "data": hx(d)}, null]));
                        match e.result().and_then(|x| x.as_str()).and_then(parse_hex_u64) {
                            Some(g) => {
                                st.estimates += 1;
                                let l = g.div_ceil(GAS_PER_BYTE);
                                est_len = Some((g, l));
                                lens.push(l);
                                // on the twin: the same call with the estimated allowance succeeds with the same output
                                let mut wb = worlds[1].clone();
                                let tw = TxSpec::Call { pk: 1, tgt: prog_tgt(), data: d.clone(), len: l };
                                let (rcb, outb) = submit(&mut b, &mut wb, &tw);
                                if rcb["status"].as_str() != Some("0x1") || outb.trim_start_matches("0x") != data.trim_start_matches("0x") {
                                    st.violations.push(mk("estimate-insufficient", what.clone(), format!("eth_estimateGas = {} (inscription length {}): the transaction gave status {} gasUsed {} output {} (eth_call output {})", g, l, rcb["status"], rcb["gasUsed"], trunc(&outb, 120), trunc(&data, 120))));
                                }
                                b.call("brc20_clearCaches", json!([]));
                                // the twin was not committed: rebuild it lazily next round (wipe at the top)
                                b.wipe();
                                let mut w2 = World::new();
                                for s in steps {
                                    w2.exec(&mut b, s);
                                }
                                submit(&mut b, &mut w2, &dep);
                                worlds[1] = w2;
                            }
                            None => st.violations.push(mk("estimate-fails-although-call-succeeds", what.clone(), format!("eth_call succeeds but eth_estimateGas answers {}", canon(&e.to_value())))),
                        }
                    }
                    lens.sort();
                    lens.dedup();
                    // the inscription call with every length; for one call-data value also the same call as a signed
                    // transaction of a fresh signer (the allowance rule is the same)
                    let mut forms: Vec<(u64, bool)> = lens.iter().map(|l| (*l, false)).collect();
                    if d[0] == 3 && si == 0 && pi % 4 == 0 {
                        forms.extend(lens.iter().filter(|l| **l != u64::MAX).map(|l| (*l, true)));
                    }
                    for (l, signed) in forms {
                        st.lens_checked += 1;
                        let allowance = l.saturating_mul(GAS_PER_BYTE);
                        let mut w = worlds[0].clone();
                        let tx = if signed { TxSpec::Transact { signer: 1, nonce: 0, tgt: prog_tgt(), data: d.clone(), len: l } } else { TxSpec::Call { pk: 1, tgt: prog_tgt(), data: d.clone(), len: l } };
                        let o = w.exec(&mut a, &Step::Tx(tx));
                        let rc = match o.outcome.result() {
                            Some(Value::Array(rs)) => rs.first().cloned().unwrap_or(Value::Null),
                            Some(v) => v.clone(),
                            None => Value::Null,
                        };
                        let sender = if signed { addr_s(crate::sign::signer_addr(1)).to_lowercase() } else { sender.clone() };
                        let what = if signed { format!("{} (as a signed transaction)", what) } else { what.clone() };
                        let g = hexu(&rc["gasUsed"]);
                        if g > allowance {
                            st.violations.push(mk("allowance-exceeded", what.clone(), format!("inscription length {} allows {} gas but the receipt records {}", l, allowance, g)));
                        }
                        let status = rc["status"].as_str() == Some("0x1");
                        if !status && (g == allowance || g == 0) && (rc_full["status"].as_str() == Some("0x1")) {
                            // ran out of its allowance (or was refused up front): nothing but the sender's nonce may change
                            st.out_of_gas += 1;
                            let after = obs::masked(a.dump());
                            for d in oog_changes(&before, &after, &sender) {
                                st.violations.push(mk("out-of-gas-changed-state", what.clone(), format!("inscription length {} (allowance {}): the transaction failed with gasUsed {} but {}", l, allowance, g, d)));
                            }
                        }
                        if let Some((eg, el)) = est_len {
                            if l == el && !status && !signed {
                                st.violations.push(mk("estimate-insufficient", what.clone(), format!("estimate {} -> length {}: status {} gasUsed {}", eg, el, rc["status"], rc["gasUsed"])));
                            }
                        }
                        a.call("brc20_clearCaches", json!([]));
                    }
                    let _ = out_full;
                }
                // ---- C16: a transaction drained from the pending pool keeps the allowance of its own
                // inscription, whatever the allowance of the call that triggers it ----
                if which == "C16" && si == 0 && d[0] == 3 {
                    let signer = addr_s(crate::sign::signer_addr(0));
                    let (sok, sdata) = sim(&mut a, &signer, Some(&target), d);
                    let est = a.call("eth_estimateGas", json!([{"from": signer, "to": target, "data": hx(d)}, null])).result().and_then(|x| x.as_str()).and_then(parse_hex_u64);
                    let trigger = |len: u64| TxSpec::Transact { signer: 0, nonce: 0, tgt: Tgt::s(), data: vec![6, 0], len };
                    let mut variants: Vec<(u64, u64, &str)> = vec![(1, DEFAULT_LEN, "own allowance 1 byte, trigger 100000 bytes")];
                    if let (true, Some(g)) = (sok, est) {
                        variants.push((g.div_ceil(GAS_PER_BYTE), 3, "own allowance = estimate, trigger 3 bytes"));
                        variants.push((g.div_ceil(GAS_PER_BYTE), DEFAULT_LEN, "own allowance = estimate, trigger 100000 bytes"));
                        // lengths whose allowance saturates (12000 x length >= 2^64): "(saturating)" — the parked
                        // transaction keeps a practically unlimited allowance, it does not lose it
                        variants.push((u64::MAX, 3, "own allowance saturated (length 2^64-1), trigger 3 bytes"));
                        variants.push((u64::MAX / GAS_PER_BYTE + 1, DEFAULT_LEN, "own allowance just saturated (length 2^64/12000 + 1), trigger 100000 bytes"));
                        variants.push((u64::MAX / GAS_PER_BYTE, 3, "own allowance just below saturation (length 2^64/12000), trigger 3 bytes"));
                    }
                    for (own_len, trig_len, vname) in variants {
                        st.lens_checked += 1;
                        let mut w = worlds[0].clone();
                        let parked = TxSpec::Transact { signer: 0, nonce: 1, tgt: prog_tgt(), data: d.clone(), len: own_len };
                        w.exec(&mut a, &Step::Tx(parked));
                        w.exec(&mut a, &Step::Fin);
                        let o = w.exec(&mut a, &Step::Tx(trigger(trig_len)));
                        let rcs = o.outcome.result().and_then(|x| x.as_array().cloned()).unwrap_or_default();
                        if rcs.len() == 2 {
                            st.drained += 1;
                            let rc = &rcs[1];
                            let g = hexu(&rc["gasUsed"]);
                            let allowance = own_len.saturating_mul(GAS_PER_BYTE);
                            if g > allowance {
                                st.violations.push(mk("allowance-exceeded", format!("{} (drained: {})", what, vname), format!("a parked transaction with inscription length {} (allowance {}) drained by a call with inscription length {} records gasUsed {}", own_len, allowance, trig_len, g)));
                            }
                            let status = rc["status"].as_str() == Some("0x1");
                            if own_len == 1 && status {
                                st.violations.push(mk("allowance-exceeded", format!("{} (drained: {})", what, vname), format!("a parked transaction with a 1-byte inscription succeeded when drained by a call with inscription length {}", trig_len)));
                            }
                            if own_len > 1 && !status {
                                let th = rc["transactionHash"].clone();
                                let out = a.call("debug_traceTransaction", json!([th])).result().and_then(|t| t["output"].as_str().map(|s| s.to_string())).unwrap_or_default();
                                let kind = if own_len >= u64::MAX / GAS_PER_BYTE { "allowance-not-granted" } else { "estimate-insufficient" };
                                st.violations.push(mk(kind, format!("{} (drained: {})", what, vname), format!("estimate {:?}, own inscription length {}: the parked transaction drained by a call with inscription length {} failed (gasUsed {}, output {}, eth_call predicted {})", est, own_len, trig_len, rc["gasUsed"], trunc(&out, 80), trunc(&sdata, 80))));
                            }
                        } else {
                            st.errors.push(format!("{}: the trigger did not drain the parked transaction ({} receipts)", what, rcs.len()));
                        }
                        a.call("brc20_clearCaches", json!([]));
                    }
                }
                if st.samples.len() < 4 && st.cases % 331 == 5 {
                    st.samples.push(json!({"program": pname, "calldata_n": d[0], "simulation": {"success": ok, "data": trunc(&data, 80)}}));
                }
                if st.violations.len() > 25 {
                    st.complete = false;
                    break 'outer;
                }
            }
            // C17: empty call data, the `input` spelling of the data field and the explicit `pending` block tag
            if which == "C17" {
                for (d, key, tag) in [(Vec::<u8>::new(), "data", Value::Null), (datas[1].clone(), "input", json!("pending"))] {
                    st.cases += 1;
                    let what = format!("{} call data {} bytes via `{}` at {}", pname, d.len(), key, tag);
                    let (ok, data) = sim_with(&mut a, &sender, Some(&target), &d, key, tag);
                    let mut w = worlds[0].clone();
                    let (rc, out) = submit(&mut a, &mut w, &TxSpec::Call { pk: 1, tgt: prog_tgt(), data: d.clone(), len: DEFAULT_LEN });
                    let status = rc["status"].as_str() == Some("0x1");
                    if status != ok || out.trim_start_matches("0x") != data.trim_start_matches("0x") {
                        st.violations.push(mk("call-differs-from-transaction", what.clone(), format!("eth_call gave (success {}, data {}) but the transaction gave (status {}, output {})", ok, trunc(&data, 200), rc["status"], trunc(&out, 200))));
                    }
                    a.call("brc20_clearCaches", json!([]));
                }
            }
            // C17: targets other than the program: precompiles called directly, an account without code, the
            // controller, S; from the pkscript sender, a never-used sender and the signer
            if which == "C17" && pi % 32 == 0 {
                let lp = calldatas()[0][1..].to_vec();
                let bal = {
                    alloy::sol! { function balanceOf(bytes ticker, address holder) returns (uint256); }
                    balanceOfCall { ticker: Bytes::from(b"ordi".to_vec()), holder: pk_addr(1) }.abi_encode()
                };
                let targets: Vec<(Tgt, Vec<u8>)> = vec![
                    (Tgt::Addr("0x0000000000000000000000000000000000000002".into()), vec![1, 2, 3]),
                    (Tgt::Addr("0x0000000000000000000000000000000000000004".into()), vec![9; 40]),
                    (Tgt::Addr("0x0000000000000000000000000000000000000001".into()), vec![0; 128]),
                    (Tgt::Addr("0x00000000000000000000000000000000000000fb".into()), lp.clone()),
                    (Tgt::Addr("0x00000000000000000000000000000000000000fb".into()), vec![1, 2, 3]),
                    (Tgt::Addr("0x00000000000000000000000000000000000000fe".into()), vec![0; 4]),
                    (Tgt::Addr("0x00000000000000000000000000000000000000ee".into()), vec![1]),
                    (Tgt::Controller, bal),
                    (Tgt::Controller, vec![0xde, 0xad, 0xbe, 0xef]),
                    (Tgt::s(), vec![6, 0]),
                    (Tgt::s(), vec![2]),
                    (Tgt::s(), vec![3]),
                    (Tgt::Dead, vec![]),
                ];
                for (tg, d) in targets {
                    for pk in [1u8, 7] {
                        st.cases += 1;
                        let to = tg.resolve().unwrap();
                        let what = format!("target {} data {} from pkscript {} after {}", to, hx(&d[..d.len().min(8)]), pk, pname);
                        let (ok, data) = sim(&mut a, &addr_s(pk_addr(pk)), Some(&to), &d);
                        let mut w = worlds[0].clone();
                        let (rc, out) = submit(&mut a, &mut w, &TxSpec::Call { pk, tgt: tg.clone(), data: d.clone(), len: DEFAULT_LEN });
                        let status = rc["status"].as_str() == Some("0x1");
                        if status != ok || out.trim_start_matches("0x") != data.trim_start_matches("0x") {
                            st.violations.push(mk("call-differs-from-transaction", what.clone(), format!("eth_call gave (success {}, data {}) but the transaction gave (status {}, output {})", ok, trunc(&data, 200), rc["status"], trunc(&out, 200))));
                        }
                        a.call("brc20_clearCaches", json!([]));
                    }
                }
            }
            // C17: the same comparison on top of UNCOMMITTED blocks in which the sender and the program's storage
            // were used (a simulation that read the committed state, or a stale nonce, would differ here); the
            // state is not restored afterwards — the next program starts from a wipe
            if which == "C17" {
                let mut w = worlds[0].clone();
                for s in block(vec![s_set(1, 0, 7), TxSpec::Call { pk: 1, tgt: prog_tgt(), data: datas[0].clone(), len: DEFAULT_LEN }]) {
                    w.exec(&mut a, &s);
                }
                w.exec(&mut a, &Step::Mine(1));
                for d in datas.iter().skip(1).take(1) {
                    st.cases += 1;
                    let what = format!("{} call data n={} on two uncommitted blocks", pname, d[0]);
                    let (ok, data) = sim(&mut a, &sender, Some(&target), d);
                    let call = TxSpec::Call { pk: 1, tgt: prog_tgt(), data: d.clone(), len: DEFAULT_LEN };
                    let (rc, out) = submit(&mut a, &mut w, &call);
                    let status = rc["status"].as_str() == Some("0x1");
                    if status != ok || out.trim_start_matches("0x") != data.trim_start_matches("0x") {
                        st.violations.push(mk("call-differs-from-transaction", what.clone(), format!("eth_call gave (success {}, data {}) but the transaction gave (status {}, output {})", ok, trunc(&data, 200), rc["status"], trunc(&out, 200))));
                    }
                }
                a.call("brc20_clearCaches", json!([]));
            }
            // C17: a sender that has a signed transaction waiting in the pending pool: eth_call from that signer
            // versus the signer's next transaction (which then also drains the waiting one)
            if which == "C17" && pi % 16 == 0 {
                let signer = addr_s(crate::sign::signer_addr(0));
                let mut w = worlds[0].clone();
                for s in block(vec![TxSpec::Transact { signer: 0, nonce: 1, tgt: Tgt::s(), data: vec![6, 0], len: DEFAULT_LEN }]) {
                    w.exec(&mut a, &s);
                }
                let d = &datas[1];
                st.cases += 1;
                let what = format!("{} call data n={} from a signer with a transaction waiting in the pool", pname, d[0]);
                let (ok, data) = sim(&mut a, &signer, Some(&target), d);
                let o = w.exec(&mut a, &Step::Tx(TxSpec::Transact { signer: 0, nonce: 0, tgt: prog_tgt(), data: d.clone(), len: DEFAULT_LEN }));
                let rcs = o.outcome.result().and_then(|x| x.as_array().cloned()).unwrap_or_default();
                match rcs.first() {
                    Some(rc) => {
                        let out = a.call("debug_traceTransaction", json!([rc["transactionHash"]])).result().and_then(|t| t["output"].as_str().map(|s| s.to_string())).unwrap_or_else(|| "<no trace>".into());
                        let status = rc["status"].as_str() == Some("0x1");
                        if status != ok || out.trim_start_matches("0x") != data.trim_start_matches("0x") {
                            st.violations.push(mk("call-differs-from-transaction", what.clone(), format!("eth_call gave (success {}, data {}) but the transaction gave (status {}, output {})", ok, trunc(&data, 200), rc["status"], trunc(&out, 200))));
                        }
                    }
                    None => st.errors.push(format!("{}: the signer's transaction returned no receipt", what)),
                }
                a.call("brc20_clearCaches", json!([]));
            }
            // C17: code above the classic size limits (the module lifts them: 24576 bytes of runtime code, 49152 bytes
            // of init code): created directly and by a factory, simulated and real
            if which == "C17" && pi % 256 == 0 {
                let big_runtime = |n: u16| -> Vec<u8> { vec![0x61, (n >> 8) as u8, n as u8, 0x5f, 0xf3] }; // RETURN(0, n): n zero bytes of runtime code
                let mut long_init = vec![0x5bu8; 49_200];
                long_init.extend_from_slice(&[0x60, 0x01, 0x5f, 0xf3]);
                let mut cases: Vec<(String, Vec<u8>)> = vec![("runtime code of 24576 bytes".into(), big_runtime(24_576)), ("runtime code of 24577 bytes".into(), big_runtime(24_577)), ("runtime code of 40000 bytes".into(), big_runtime(40_000)), ("init code of 49204 bytes".into(), long_init)];
                // a factory: its runtime CREATEs a child with 30000 bytes of runtime code and returns the child's address
                let child_init = big_runtime(30_000);
                let mut f = Asm::new();
                f.push_bytes(&child_init).push(0).op(0x52); // mstore(0, child_init right-aligned)
                f.push(child_init.len() as u64).push(32 - child_init.len() as u64).push(0).op(0xf0); // CREATE(0, 32-len, len)
                f.push(0).op(0x52).push(32).push(0).op(0xf3);
                cases.push(("factory of a child with 30000 bytes of runtime code".into(), crate::asm::initcode(&f.finish())));
                for (cname, init) in cases {
                    st.creations += 1;
                    let (bs, bdata) = sim(&mut a, &addr_s(pk_addr(6)), None, &init);
                    let mut w = worlds[0].clone();
                    let (rc, _) = submit(&mut a, &mut w, &TxSpec::Deploy { pk: 6, code: init.clone(), len: DEFAULT_LEN });
                    let created = rc["contractAddress"].as_str().map(|c| c.to_string());
                    let installed = created.as_ref().and_then(|c| a.call("eth_getCode", json!([c])).result().and_then(|x| x.as_str().map(|s| s.to_string()))).unwrap_or_default();
                    let real_ok = rc["status"].as_str() == Some("0x1");
                    if bs != real_ok || (real_ok && bdata.trim_start_matches("0x") != installed.trim_start_matches("0x")) {
                        st.violations.push(mk("simulated-creation-differs", format!("{} after {}", cname, pname), format!("eth_call creation returned (success {}, {} hex digits) but the deployment gave status {} and installed {} hex digits", bs, bdata.len(), rc["status"], installed.len())));
                    }
                    if cname.starts_with("factory") && real_ok {
                        if let Some(fa) = &created {
                            st.cases += 1;
                            let (ok, data) = sim(&mut a, &sender, Some(fa), &[]);
                            let (rc2, out) = submit(&mut a, &mut w, &TxSpec::Call { pk: 1, tgt: Tgt::Addr(fa.clone()), data: vec![], len: DEFAULT_LEN });
                            if (rc2["status"].as_str() == Some("0x1")) != ok || out.trim_start_matches("0x") != data.trim_start_matches("0x") {
                                st.violations.push(mk("call-differs-from-transaction", format!("{} after {}", cname, pname), format!("eth_call gave (success {}, data {}) but the transaction gave (status {}, output {})", ok, trunc(&data, 200), rc2["status"], trunc(&out, 200))));
                            }
                        }
                    }
                    a.call("brc20_clearCaches", json!([]));
                }
            }
            // C17: a simulated creation runs at the address the real deployment gets (init code that bakes
            // ADDRESS, CALLER, ORIGIN and CODESIZE-independent environment into the runtime code), for a used
            // and for a never-used deployer
            if which == "C17" && pi % 64 == 0 {
                for pk in [2u8, 9] {
                    // ADDRESS -> mem[0], CALLER -> mem[32], ORIGIN -> mem[64], CHAINID -> mem[96]; return 128 bytes
                    let bake: Vec<u8> = vec![0x30, 0x5f, 0x52, 0x33, 0x60, 0x20, 0x52, 0x32, 0x60, 0x40, 0x52, 0x46, 0x60, 0x60, 0x52, 0x60, 0x80, 0x5f, 0xf3];
                    let (bs, bdata) = sim(&mut a, &addr_s(pk_addr(pk)), None, &bake);
                    let mut w = worlds[0].clone();
                    let (rc, _) = submit(&mut a, &mut w, &TxSpec::Deploy { pk, code: bake.clone(), len: DEFAULT_LEN });
                    let installed = rc["contractAddress"].as_str().and_then(|c| a.call("eth_getCode", json!([c])).result().and_then(|x| x.as_str().map(|s| s.to_string()))).unwrap_or_default();
                    st.creations += 1;
                    if !bs || rc["status"].as_str() != Some("0x1") || bdata.trim_start_matches("0x") != installed.trim_start_matches("0x") || installed.len() < 100 {
                        st.violations.push(mk("simulated-creation-differs", format!("environment-baking init code deployed by pkscript {} after {}", pk, pname), format!("eth_call creation returned ({}, {}) but the deployment (status {}) installed {}", bs, trunc(&bdata, 300), rc["status"], trunc(&installed, 300))));
                    }
                    a.call("brc20_clearCaches", json!([]));
                }
            }
        }
    }
    st
}

pub fn worker_main(which: &str, tier: &str, shard: u64, nshards: u64, budget_s: f64) {
    let st = worker(which, tier, shard, nshards, budget_s);
    crate::inst::cleanup_scratch();
    println!("@@RESULT {}", serde_json::to_string(&st).unwrap());
}

pub fn run(which: &str, tier: &str, seed: u64) -> i32 {
    let t0 = Instant::now();
    crate::inst::cleanup_stale_scratch();
    let budget: f64 = std::env::var("VERIF_BUDGET_S").ok().and_then(|s| s.parse().ok()).unwrap_or(if tier == "thorough" { 900.0 } else { 45.0 });
    let res = crate::hist::spawn_generic(which, tier, 16, budget, seed, 0, &[]);
    let mut t = GStats { complete: true, ..Default::default() };
    let mut errors = Vec::new();
    for r in res {
        match r {
            Ok(s) => {
                let g: GStats = serde_json::from_str(&s).expect("worker json");
                t.cases += g.cases;
                t.sim_success += g.sim_success;
                t.sim_failure += g.sim_failure;
                t.estimates += g.estimates;
                t.lens_checked += g.lens_checked;
                t.drained += g.drained;
                t.out_of_gas += g.out_of_gas;
                t.creations += g.creations;
                t.violations.extend(g.violations);
                t.samples.extend(g.samples);
                errors.extend(g.errors);
                t.complete &= g.complete;
            }
            Err(e) => errors.push(e),
        }
    }
    let (new, known) = crate::evidence::triage(which, t.violations.clone());
    let mut ev = Evidence::new(which, tier, seed, "exploration");
    let progs = all_programs().len();
    ev.coverage = json!({
        "evaluations": if which == "C16" { t.lens_checked + t.estimates } else { t.cases + t.creations }, "distinct_nontrivial": t.cases,
        "rule": format!("programs: every sequence of <= 3 statements over {:?} ({} programs) x call data n in {{0, 3, 200}} x 2 engine states (thorough: plus the 36 chain states reached by all histories of length 2 over a 6-operation alphabet, each with a rotating sixth of the programs). C17: eth_call at the block boundary vs status and trace output of the same call submitted next; simulated creation vs installed code. C16: inscription lengths {{0, 1, need-1, need, need+1, estimate/12000 rounded up, 2^64-1}}: gasUsed <= 12000 x length (saturating); a transaction that exhausts its allowance changes nothing but its sender's nonce (and its own transaction rows); the estimated length succeeds on a twin instance with the output eth_call predicted. distinct_nontrivial = (program, call data, state) cases", KINDS, progs),
        "samples": t.samples.iter().take(6).collect::<Vec<_>>(),
        "programs": progs, "cases": t.cases, "simulations_succeeding": t.sim_success, "simulations_failing": t.sim_failure, "estimates_checked_on_twin": t.estimates, "inscription_lengths_checked": t.lens_checked, "drained_pending_transactions_checked": t.drained, "out_of_allowance_cases": t.out_of_gas, "simulated_creations": t.creations,
        "exhaustive": t.complete, "machinery_errors": errors,
    });
    ev.assumptions = vec!["generated programs do not read remaining gas, time, randomness or the current Bitcoin transaction id".into(), "revm is trusted".into()];
    ev.violations = new.len() as i64;
    ev.wall_s = t0.elapsed().as_secs_f64();
    ev.write();
    println!("{} {}: cases={} sim ok/fail={}/{} estimates={} lengths={} drained={} out-of-allowance={} creations={} complete={} wall={:.1}s", which, tier, t.cases, t.sim_success, t.sim_failure, t.estimates, t.lens_checked, t.drained, t.out_of_gas, t.creations, t.complete, ev.wall_s);
    for (id, _) in known.iter().take(3) {
        println!("KNOWN-FINDING: property={} {}", which, id);
    }
    if !new.is_empty() {
        let mut groups: BTreeMap<String, u64> = BTreeMap::new();
        for v in &new {
            *groups.entry(v.kind.clone()).or_insert(0) += 1;
        }
        println!("  summary: {:?}", groups);
        for v in new.iter().take(10) {
            println!("VIOLATION property={} replay={}", which, crate::evidence::write_replay(v));
            println!("  {} {:?}\n  {}", v.kind, v.path, trunc(&v.detail, 700));
        }
        return 1;
    }
    if !errors.is_empty() {
        for e in errors.iter().take(6) {
            eprintln!("MACHINERY-ERROR: {}", trunc(e, 600));
        }
        return 3;
    }
    if t.cases == 0 {
        eprintln!("MACHINERY-ERROR: vacuous");
        return 3;
    }
    0
}
