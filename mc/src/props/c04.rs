//! C04 — a crash at any write can be recovered exactly by a reorg to a durable height.
//! Crash-point enumeration: for every generated history ending in a victim operation, the victim is
//! run once counting its persistent writes, then once per write with a failpoint armed in front of
//! it (panic, all handles dropped), the directory is reopened and every eligible recovery is checked.
use super::common::*;
use crate::evidence::Evidence;
use crate::explore::{trunc, Violation};
use crate::inst::{fresh_dir, Inst};
use crate::obs::{self, ObsCfg};
use crate::util::*;
use crate::world::*;
use brc20_prog::verif as v;
use serde::{Deserialize, Serialize};
use serde_json::{json, Value};
use std::collections::{BTreeMap, HashMap};
use std::path::Path;
use std::time::Instant;

#[derive(Default, Serialize, Deserialize)]
pub struct CrashStats {
    histories: u64,
    histories_skipped: u64,
    crash_points: u64,
    cases: u64,
    recoveries: u64,
    lost_only_uncommitted: u64,
    reopened_heights: BTreeMap<String, u64>,
    sites: BTreeMap<String, u64>,
    victims: BTreeMap<String, u64>,
    samples: Vec<Value>,
    violations: Vec<Violation>,
    errors: Vec<String>,
    complete: bool,
    /// crash points inside the *recovery* reorg (a second crash), and second recoveries checked
    /// the first level (pass 0) was cut short by the budget or the violation cap
    #[serde(default)]
    first_level_incomplete: bool,
    #[serde(default)]
    second_crash_points: u64,
    #[serde(default)]
    second_recoveries: u64,
    /// store-level crash enumeration (c13::part_crash)
    #[serde(default)]
    store: Option<super::c13::PartCrash>,
}

fn copy_dir(from: &Path, to: &Path) {
    std::fs::create_dir_all(to).expect("mkdir");
    for e in std::fs::read_dir(from).expect("readdir").flatten() {
        let p = e.path();
        let t = to.join(e.file_name());
        if p.is_dir() {
            copy_dir(&p, &t);
        } else if e.file_name() != "LOCK" {
            std::fs::copy(&p, &t).expect("copy");
        } else {
            std::fs::write(&t, b"").expect("lock");
        }
    }
}

fn alphabet() -> Vec<(String, Vec<Step>)> {
    vec![
        ("B(set0=1)".into(), block(vec![s_set(0, 0, 1)])),
        ("B(set1=2)".into(), block(vec![s_set(1, 1, 2)])),
        ("M1".into(), vec![Step::Mine(1)]),
        (format!("M{}", W - 1), vec![Step::Mine(W - 1)]),
        ("C".into(), vec![Step::Commit]),
        ("R-1".into(), vec![Step::Reorg(RTarget::Back(1))]),
        ("R-2".into(), vec![Step::Reorg(RTarget::Back(2))]),
    ]
}

fn victims(thorough: bool) -> Vec<(String, Vec<Step>, Step)> {
    // (name, steps before the victim call, the victim call)
    let mut v = vec![
        ("C".into(), vec![], Step::Commit),
        ("R-1".into(), vec![], Step::Reorg(RTarget::Back(1))),
        ("R-2".into(), vec![], Step::Reorg(RTarget::Back(2))),
        (format!("R-{}", W), vec![], Step::Reorg(RTarget::Back(W))),
        ("finalise(B(set0=2))".into(), vec![Step::Tx(s_set(0, 0, 2))], Step::Fin),
    ];
    if !thorough {
        v.retain(|x| x.0 != "R-2");
    }
    v
}

/// histories added to both tiers (M11 = W + 1 empty blocks)
const EXTRA_BOTH: &[&[&str]] = &[&["B(set0=1)", "M11", "B(set0=1)", "C"], &["C", "M11", "B(set0=1)", "C"]];

/// length-3 histories added to the quick tier
const EXTRA_QUICK: &[&[&str]] = &[&["C", "B(set0=1)", "B(set1=2)"], &["C", "B(set0=1)", "M1"]];

/// history prefixes whose crash points also get the second-crash layer in the quick tier
const DOUBLE_QUICK: &[(&[&str], &str)] = &[(&["C"], "C"), (&["C"], "finalise(B(set0=2))")];

struct Prepared {
    inst: Inst,
    world: World,
}

fn prepare(dir: &Path, steps: &[Step]) -> Option<Prepared> {
    let mut inst = Inst::open(dir);
    let mut world = World::new();
    for s in steps {
        let o = world.exec(&mut inst, s);
        if o.outcome.is_panic() {
            return None;
        }
    }
    Some(Prepared { inst, world })
}

/// obs of the normal form truncated to height `h`, plus of one extension block
fn reference(refi: &mut Inst, memo: &mut HashMap<u128, (String, String)>, world: &World, h: u64, uni: &Universe) -> (String, String) {
    let calls: Vec<&Rec> = world.recs.iter().filter(|r| r.height <= h && r.close.is_some()).flat_map(|r| r.calls.iter().chain(r.close.iter())).collect();
    let key = h128(&(calls.iter().map(|r| &r.call).collect::<Vec<_>>(), uni));
    if let Some(x) = memo.get(&key) {
        return x.clone();
    }
    refi.wipe();
    for r in &calls {
        refi.call(&r.call.method, r.call.params.clone());
    }
    let mut u = uni.clone();
    u.max_height = u.max_height.max(h + 1);
    let o1 = obs::obs(refi, &u, &ObsCfg::default());
    extend(refi, h);
    let o2 = obs::obs(refi, &u, &ObsCfg::default());
    memo.insert(key, (o1.clone(), o2.clone()));
    (o1, o2)
}

/// one more block on top of height h, the same on both sides
fn extend(inst: &mut Inst, h: u64) {
    let ts = 1_700_000_000 + h;
    let hash = format!("0x{:0>64}", format!("e{:08x}", h + 1));
    let c = tx_call_with(&s_set(0, 2, 7), 0, ts, &hash, &format!("ext{}", h), &h32(0x66));
    inst.call(&c.method, c.params);
    inst.call("brc20_finaliseBlock", json!({"timestamp": ts, "hash": hash, "block_tx_count": 1}));
}

pub fn worker(tier: &str, shard: u64, nshards: u64, budget_s: f64) -> CrashStats {
    let thorough = tier == "thorough";
    crate::inst::set_config("regtest", true);
    let mut st = CrashStats { complete: true, ..Default::default() };
    let deadline = Instant::now() + std::time::Duration::from_secs_f64(budget_s);
    let mut alpha = alphabet();
    if !thorough {
        alpha.retain(|a| a.0 != "R-2");
    }
    let maxlen = if thorough { 3 } else { 2 };
    // all prefixes of length <= maxlen that contain a commit
    let mut prefixes: Vec<Vec<usize>> = Vec::new();
    let mut cur: Vec<Vec<usize>> = vec![vec![]];
    for _ in 0..maxlen {
        let mut next = Vec::new();
        for p in &cur {
            for i in 0..alpha.len() {
                let mut q = p.clone();
                q.push(i);
                next.push(q);
            }
        }
        prefixes.extend(next.iter().filter(|p| p.iter().any(|i| alpha[*i].0 == "C")).cloned());
        cur = next;
    }
    // macros that only occur in the explicit histories below (not enumerated)
    alpha.push((format!("M{}", W + 1), vec![Step::Mine(W + 1)]));
    if !thorough {
        // two uncommitted blocks above the last commit, so that a reorg victim has a target strictly
        // between the committed and the current height (the thorough tier has all length-3 histories)
        for extra in EXTRA_QUICK {
            prefixes.push(extra.iter().map(|n| alpha.iter().position(|a| a.0 == *n).expect("alphabet")).collect());
        }
    }
    // a key rewritten after more than W blocks: rolling the second write back leaves a history that is
    // old at the target, which commit *deletes* (both tiers)
    for extra in EXTRA_BOTH {
        prefixes.push(extra.iter().map(|n| alpha.iter().position(|a| a.0 == *n).expect("alphabet")).collect());
    }
    let base = start_with_s();
    let mut refi = Inst::fresh();
    let mut memo: HashMap<u128, (String, String)> = HashMap::new();
    let mut counter = 0u64;
    // pass 0: the first-level cases of every history; pass 1: the second-crash layer (so that a short
    // budget is spent on the first level first)
    'hist: for (pass, p) in (0..2).flat_map(|pass| prefixes.iter().map(move |p| (pass, p))) {
        for (vname, vpre, victim) in victims(thorough) {
            if Instant::now() > deadline {
                st.complete = false;
                st.first_level_incomplete |= pass == 0;
                break 'hist;
            }
            // second-crash layer: every history in the thorough tier; in the quick tier the histories of
            // DOUBLE_QUICK (a stated sub-bound, not a sample)
            let pname: Vec<&str> = p.iter().map(|i| alpha[*i].0.as_str()).collect();
            let double_here = pass == 1 && (thorough || DOUBLE_QUICK.iter().any(|d| d.0 == pname.as_slice() && d.1 == vname));
            if pass == 1 && !double_here {
                continue;
            }
            let mut steps = base.clone();
            for i in p {
                steps.extend(alpha[*i].1.clone());
            }
            steps.extend(vpre.clone());
            let name: Vec<String> = p.iter().map(|i| alpha[*i].0.clone()).chain(std::iter::once(format!("victim:{}", vname))).collect();
            // --- count mode ---
            let dir0 = fresh_dir();
            let Some(mut pr) = prepare(&dir0, &steps) else {
                if shard == 0 && pass == 0 {
                    st.histories_skipped += 1;
                }
                let _ = std::fs::remove_dir_all(&dir0);
                continue;
            };
            if pr.world.committed.is_none() {
                if shard == 0 && pass == 0 {
                    st.histories_skipped += 1;
                }
                drop(pr);
                let _ = std::fs::remove_dir_all(&dir0);
                continue;
            }
            let pre_world = pr.world.clone();
            v::fp_reset(u64::MAX, true);
            let vout = pr.world.exec(&mut pr.inst, &victim);
            let n = v::fp_count();
            let sites = v::fp_log();
            v::fp_reset(u64::MAX, false);
            let accepted = vout.outcome.is_ok();
            let post_world = pr.world.clone();
            drop(pr);
            let _ = std::fs::remove_dir_all(&dir0);
            if !accepted || n == 0 || vout.call.method == "<skip>" {
                if shard == 0 && pass == 0 {
                    st.histories_skipped += 1;
                }
                continue;
            }
            if shard == 0 && pass == 0 {
                st.histories += 1;
                *st.victims.entry(vname.clone()).or_insert(0) += 1;
            }
            let uni = post_world.uni.clone();
            let committed = pre_world.committed.unwrap();
            let max_ever = pre_world.max_ever.unwrap_or(committed);
            let is_commit_or_reorg = matches!(victim, Step::Commit | Step::Reorg(_));
            let target: Option<u64> = if let Step::Reorg(t) = &victim { pre_world.resolve_reorg(t) } else { None };
            // eligible recovery heights (statement): committed before the crash, not above a reorg target
            // attempted since, inside the window of the highest block ever finalised
            let upper = target.map(|t| t.min(committed)).unwrap_or(committed);
            // a crash inside finalise may already have recorded the in-flight height as the highest
            // finalised one: stay inside the window for both readings
            let lower = if matches!(victim, Step::Fin) { (max_ever + 1).saturating_sub(W) } else { max_ever.saturating_sub(W) };
            let mut hs: Vec<u64> = vec![upper];
            if upper > lower {
                hs.push(lower);
            }
            if thorough && upper > lower + 1 {
                hs.push(upper - 1);
            }
            hs.retain(|h| *h <= upper && *h >= lower);
            if st.samples.len() < 4 && shard == 0 && pass == 0 {
                st.samples.push(json!({"history": name, "persistent_writes_of_victim": n, "first_sites": sites.iter().take(6).collect::<Vec<_>>(), "recovery_heights": hs}));
            }
            for i in 0..=n {
                counter += 1;
                // the first-level cases of a crash point belong to one worker; the second-crash layer of a
                // crash point is spread over all workers (each rebuilds the crashed directory)
                let mine = pass == 0 && counter % nshards == shard;
                if !mine && !double_here {
                    continue;
                }
                if Instant::now() > deadline {
                    st.complete = false;
                    st.first_level_incomplete |= pass == 0;
                    break 'hist;
                }
                let site = if (i as usize) < sites.len() { sites[i as usize] } else { "after-the-last-write" };
                if mine {
                    *st.sites.entry(site.to_string()).or_insert(0) += 1;
                    st.crash_points += 1;
                }
                let dir = fresh_dir();
                let Some(mut pr) = prepare(&dir, &steps) else {
                    st.errors.push(format!("prefix not reproducible for {:?}", name));
                    continue;
                };
                v::fp_reset(i, false);
                let o = pr.world.exec(&mut pr.inst, &victim);
                v::fp_reset(u64::MAX, false);
                if i < n && !o.outcome.is_panic() {
                    st.errors.push(format!("{:?}: failpoint {} did not fire (nondeterministic write sequence?)", name, i));
                }
                // the process dies: everything in memory is gone
                drop(pr);
                // --- a crash outside commit / reorg loses only uncommitted work ---
                if !is_commit_or_reorg && mine {
                    let mut re = Inst::open(&dir);
                    let got = obs::obs(&mut re, &{ let mut u = uni.clone(); u.max_height = u.max_height.max(committed + 1); u }, &ObsCfg::default());
                    let snap = World { recs: pre_world.snapshot.0.clone(), ..World::new() };
                    let (want, _) = reference(&mut refi, &mut memo, &snap, committed, &uni);
                    st.cases += 1;
                    if got != want {
                        let d = got.lines().zip(want.lines()).find(|(a, b)| a != b).map(|(a, b)| format!("reopened: {} | right after the last commit: {}", trunc(a, 600), trunc(b, 600))).unwrap_or_default();
                        st.violations.push(Violation { property: "C04".into(), kind: "crash-outside-commit-lost-more-than-uncommitted".into(), scenario: "crash".into(), start: "S deployed in block 1".into(), path: name.clone(), steps: steps.clone(), detail: format!("crash before write #{} ({}): {}", i, site, d) });
                    } else {
                        st.lost_only_uncommitted += 1;
                    }
                    drop(re);
                }
                // --- recovery by a reorg to every eligible durable height ---
                for h in &hs {
                    let mut detail = String::new();
                    let mut height = String::new();
                    // (a worker that does not own this crash point only takes its share of the second-crash
                    // layer below)
                    if mine {
                        let dh = fresh_dir();
                        copy_dir(&dir, &dh);
                        let mut re = Inst::open(&dh);
                        height = re.call("eth_blockNumber", json!([])).result().and_then(|x| x.as_str().map(|s| s.to_string())).unwrap_or_default();
                        *st.reopened_heights.entry(height.clone()).or_insert(0) += 1;
                        st.cases += 1;
                        let r = re.call("brc20_reorg", json!([h]));
                        if !r.is_ok() {
                            detail = format!("brc20_reorg({}) after the crash returned {}", h, canon(&r.to_value()));
                        } else {
                            let mut u = uni.clone();
                            u.max_height = u.max_height.max(h + 1);
                            let got = obs::obs(&mut re, &u, &ObsCfg::default());
                            let (want, want_ext) = reference(&mut refi, &mut memo, &pre_world, *h, &uni);
                            if got != want {
                                detail = got.lines().zip(want.lines()).find(|(a, b)| a != b).map(|(a, b)| format!("after reorg({}): recovered: {} | fresh replay up to {}: {}", h, trunc(a, 600), h, trunc(b, 600))).unwrap_or_default();
                            } else {
                                extend(&mut re, *h);
                                let got2 = obs::obs(&mut re, &u, &ObsCfg::default());
                                if got2 != want_ext {
                                    detail = got2.lines().zip(want_ext.lines()).find(|(a, b)| a != b).map(|(a, b)| format!("after reorg({}) and one more block: recovered: {} | fresh replay: {}", h, trunc(a, 600), trunc(b, 600))).unwrap_or_default();
                                }
                            }
                        }
                        drop(re);
                        let _ = std::fs::remove_dir_all(&dh);
                    }
                    // --- a second crash, inside the recovery reorg itself: reopen again, reorg to a height
                    // not above the target just attempted ---
                    if detail.is_empty() && double_here && (thorough || *h == hs[0]) {
                        let dc = fresh_dir();
                        copy_dir(&dir, &dc);
                        let mut rc = Inst::open(&dc);
                        if height.is_empty() {
                            height = rc.call("eth_blockNumber", json!([])).result().and_then(|x| x.as_str().map(|s| s.to_string())).unwrap_or_default();
                        }
                        v::fp_reset(u64::MAX, true);
                        let r0 = rc.call("brc20_reorg", json!([h]));
                        let n2 = v::fp_count();
                        let sites2 = v::fp_log();
                        v::fp_reset(u64::MAX, false);
                        drop(rc);
                        let _ = std::fs::remove_dir_all(&dc);
                        if std::env::var("VERIF_DEBUG").is_ok() && shard == 0 {
                            eprintln!("second-crash: {:?} first crash {} of {} recovery height {} -> {} writes in the recovery reorg (ok={})", name, i, n, h, n2, r0.is_ok());
                        }
                        if r0.is_ok() {
                            for j in 0..n2 {
                                if (counter * 7 + j) % nshards != shard {
                                    continue;
                                }
                                if Instant::now() > deadline {
                                    st.complete = false;
                                    st.first_level_incomplete |= pass == 0;
                                    break;
                                }
                                let d2 = fresh_dir();
                                copy_dir(&dir, &d2);
                                let mut r2 = Inst::open(&d2);
                                v::fp_reset(j, false);
                                let o2 = r2.call("brc20_reorg", json!([h]));
                                v::fp_reset(u64::MAX, false);
                                if !o2.is_panic() {
                                    st.errors.push(format!("{:?}: second failpoint {} of {} did not fire in the recovery reorg", name, j, n2));
                                }
                                drop(r2);
                                st.second_crash_points += 1;
                                let mut h2s = vec![*h];
                                if thorough && lower < *h {
                                    h2s.push(lower);
                                }
                                let in_place = h2s.len() == 1;
                                for h2 in h2s {
                                    // (with a single second recovery the crashed directory is reopened as it is)
                                    let d3 = if in_place { d2.clone() } else { fresh_dir() };
                                    if !in_place {
                                        copy_dir(&d2, &d3);
                                    }
                                    let mut r3 = Inst::open(&d3);
                                    st.cases += 1;
                                    let rr = r3.call("brc20_reorg", json!([h2]));
                                    let mut det2 = String::new();
                                    if !rr.is_ok() {
                                        det2 = format!("brc20_reorg({}) after the second crash returned {}", h2, canon(&rr.to_value()));
                                    } else {
                                        let mut u = uni.clone();
                                        u.max_height = u.max_height.max(h2 + 1);
                                        let got = obs::obs(&mut r3, &u, &ObsCfg::default());
                                        let (want, want_ext) = reference(&mut refi, &mut memo, &pre_world, h2, &uni);
                                        if got != want {
                                            det2 = got.lines().zip(want.lines()).find(|(a, b)| a != b).map(|(a, b)| format!("recovered: {} | fresh replay up to {}: {}", trunc(a, 600), h2, trunc(b, 600))).unwrap_or_default();
                                        } else if thorough {
                                            extend(&mut r3, h2);
                                            let got2 = obs::obs(&mut r3, &u, &ObsCfg::default());
                                            if got2 != want_ext {
                                                det2 = got2.lines().zip(want_ext.lines()).find(|(a, b)| a != b).map(|(a, b)| format!("one more block: recovered: {} | fresh replay: {}", trunc(a, 600), trunc(b, 600))).unwrap_or_default();
                                            }
                                        }
                                    }
                                    if det2.is_empty() {
                                        st.second_recoveries += 1;
                                    } else if st.violations.len() < 30 {
                                        let site2 = sites2.get(j as usize).copied().unwrap_or("?");
                                        st.violations.push(Violation { property: "C04".into(), kind: "not-recovered-after-second-crash".into(), scenario: "crash".into(), start: "S deployed in block 1".into(), path: name.clone(), steps: steps.clone(), detail: format!("crash before write #{} of {} ({}), reopened at height {}, recovery brc20_reorg({}) crashed before its write #{} of {} ({}), reopened again, brc20_reorg({}): {}", i, n, site, height, h, j, n2, site2, h2, det2) });
                                    }
                                    drop(r3);
                                    if !in_place {
                                        let _ = std::fs::remove_dir_all(&d3);
                                    }
                                }
                                let _ = std::fs::remove_dir_all(&d2);
                            }
                        }
                    }
                    if !mine {
                    } else if detail.is_empty() {
                        st.recoveries += 1;
                    } else if st.violations.len() < 30 {
                        st.violations.push(Violation { property: "C04".into(), kind: "not-recovered-by-reorg".into(), scenario: "crash".into(), start: "S deployed in block 1".into(), path: name.clone(), steps: steps.clone(), detail: format!("crash before write #{} of {} ({}), reopened at height {}, recovery height {}: {}", i, n, site, height, h, detail) });
                    }
                }
                let _ = std::fs::remove_dir_all(&dir);
                if st.violations.len() >= 30 {
                    st.complete = false;
                    st.first_level_incomplete |= pass == 0;
                    break 'hist;
                }
            }
        }
    }
    // store level: the same question asked of the two table components alone, over deeper operation
    // sequences than the engine-level histories can afford
    let store_deadline = Instant::now() + std::time::Duration::from_secs_f64(if thorough { 300.0 } else { 12.0 });
    let pc = super::c13::part_crash(if thorough { 4 } else { 2 }, if thorough { 3 } else { 0 }, shard, nshards, store_deadline);
    if let Some((e, j)) = &pc.violation {
        st.violations.push(Violation { property: "C04".into(), kind: "store-not-recovered-by-rollback".into(), scenario: "crash-store".into(), start: "empty tables".into(), path: vec![j["ops"].as_str().unwrap_or("").to_string(), j["victim"].as_str().unwrap_or("").to_string()], steps: vec![], detail: e.clone() });
    }
    st.errors.extend(pc.errors.iter().cloned());
    st.store = Some(pc);
    st
}

pub fn worker_main(tier: &str, shard: u64, nshards: u64, budget_s: f64) {
    let st = worker(tier, shard, nshards, budget_s);
    crate::inst::cleanup_scratch();
    println!("@@RESULT {}", serde_json::to_string(&st).unwrap());
}

pub fn run(tier: &str, seed: u64) -> i32 {
    let t0 = Instant::now();
    crate::inst::cleanup_stale_scratch();
    let budget: f64 = std::env::var("VERIF_BUDGET_S").ok().and_then(|s| s.parse().ok()).unwrap_or(if tier == "thorough" { 1200.0 } else { 44.0 });
    let res = crate::hist::spawn_generic("C04", tier, 16, budget, seed, 0, &[]);
    let mut total = CrashStats { complete: true, ..Default::default() };
    let mut errors = Vec::new();
    for r in res {
        match r {
            Ok(s) => {
                let st: CrashStats = serde_json::from_str(&s).expect("worker json");
                total.histories += st.histories;
                total.histories_skipped += st.histories_skipped;
                total.crash_points += st.crash_points;
                total.cases += st.cases;
                total.recoveries += st.recoveries;
                total.lost_only_uncommitted += st.lost_only_uncommitted;
                total.first_level_incomplete |= st.first_level_incomplete;
                if let Some(pc) = st.store {
                    let t = total.store.get_or_insert_with(|| super::c13::PartCrash { complete: true, ..Default::default() });
                    t.states = t.states.max(pc.states);
                    t.depth = t.depth.max(pc.depth);
                    t.victims += pc.victims;
                    t.crash_points += pc.crash_points;
                    t.cases += pc.cases;
                    t.second_crash_points += pc.second_crash_points;
                    t.complete &= pc.complete;
                }
                total.second_crash_points += st.second_crash_points;
                total.second_recoveries += st.second_recoveries;
                for (k, v) in st.reopened_heights {
                    *total.reopened_heights.entry(k).or_insert(0) += v;
                }
                for (k, v) in st.sites {
                    *total.sites.entry(k).or_insert(0) += v;
                }
                for (k, v) in st.victims {
                    *total.victims.entry(k).or_insert(0) += v;
                }
                total.samples.extend(st.samples);
                total.violations.extend(st.violations);
                errors.extend(st.errors);
                total.complete &= st.complete;
            }
            Err(e) => errors.push(e),
        }
    }
    let (new, known) = crate::evidence::triage("C04", total.violations.clone());
    let mut ev = Evidence::new("C04", tier, seed, "fault_enumeration");
    ev.coverage = json!({
        "evaluations": total.cases, "distinct_nontrivial": total.crash_points,
        "rule": "histories = every sequence of length <= 2 (quick; plus [C, B(set0=1), B(set1=2)] and [C, B(set0=1), M1]) / 3 (thorough), plus [B(set0=1), M11, B(set0=1), C] and [C, M11, B(set0=1), C] in both tiers, over {B(set0=1), B(set1=2), M1, M(W-1), C, R-1, R-2} that contains a successful commit, followed by a victim in {commit, reorg 1 / 2 / W blocks back, finalise of a one-transaction block}; for each history the victim's persistent writes are counted and a crash (panic in front of the write, all handles dropped, directory reopened) is placed before each one and after the last; each (history, crash point, eligible recovery height) is one case. distinct_nontrivial = crash points",
        "samples": total.samples.iter().take(6).collect::<Vec<_>>(),
        "histories": total.histories, "histories_without_victim_writes": total.histories_skipped, "crash_points": total.crash_points, "recovered_cases": total.recoveries,
        "non_commit_victims_lost_only_uncommitted": total.lost_only_uncommitted,
        "second_crash": {"rule": "for every first crash point of ([C], victim C) and ([C], victim finalise) (quick — a smoke-level sub-bound: one case costs two re-opens of 28 RocksDB instances; first recovery height, second recovery to the same height) / of every history and victim (thorough; every recovery height, second recovery to the same and to the lowest eligible height, plus one more block): a second crash in front of every persistent write of the recovery reorg, reopen, reorg again", "crash_points_inside_recovery": total.second_crash_points, "recovered_after_second_crash": total.second_recoveries},
        "heights_at_reopen": total.reopened_heights, "crash_sites": total.sites, "victims": total.victims,
        "store_level": total.store.as_ref().map(|t| json!({"rule": "BFS over {Set(10,1), Set(10,2), Unset(10), Set(20,1), Next, Skip(W-1 blocks), Commit, Rollback(1)} to depth 2 (quick) / 4 (thorough) from the empty tables and from three seeds in which a key is rewritten more than W blocks after its previous version; in every distinct state each victim in {commit, rollback by 1, rollback by 2} is crashed in front of each of its persistent writes on BlockCachedDatabase + BlockDatabase (real RocksDB), the tables are reopened and rolled back to every eligible block (committed before the crash, not above the victim's target, within W of the highest block), and point reads, range scans, full scan, version cap and the block table are compared with the reference map truncated at that block", "distinct_states": t.states, "depth_completed": t.depth, "victims": t.victims, "crash_points": t.crash_points, "second_crash_points (the recovery rollback dies too; states up to depth 0 quick incl. the seeds / 3 thorough)": t.second_crash_points, "cases": t.cases, "complete": t.complete})),
        "exhaustive": total.complete, "first_level_exhaustive": !total.first_level_incomplete, "machinery_errors": errors,
    });
    ev.assumptions = vec!["crash model of the statement: the process dies between two RocksDB calls; RocksDB's WAL makes exactly the completed writes visible on reopen; torn or unsynced writes after power loss are outside the property".into()];
    ev.violations = new.len() as i64;
    ev.wall_s = t0.elapsed().as_secs_f64();
    ev.write();
    println!("C04 {}: histories={} (skipped {}), crash points={}, cases={}, recovered={}, second crash points={} recovered={}, first level complete={}, store-level crash points={} cases={}, complete={}, wall={:.1}s", tier, total.histories, total.histories_skipped, total.crash_points, total.cases, total.recoveries, total.second_crash_points, total.second_recoveries, !total.first_level_incomplete, total.store.as_ref().map(|t| t.crash_points).unwrap_or(0), total.store.as_ref().map(|t| t.cases).unwrap_or(0), total.complete, ev.wall_s);
    crate::inst::cleanup_scratch();
    let mut seen = std::collections::BTreeSet::new();
    for (id, _) in &known {
        if seen.insert(id.clone()) {
            println!("KNOWN-FINDING: property=C04 {}", id);
        }
    }
    if !new.is_empty() {
        for v in new.iter().take(10) {
            println!("VIOLATION property=C04 replay={}", crate::evidence::write_replay(v));
            println!("  {} path={:?}\n  {}", v.kind, v.path, trunc(&v.detail, 1500));
        }
        return 1;
    }
    if !errors.is_empty() {
        for e in errors.iter().take(5) {
            eprintln!("MACHINERY-ERROR: {}", trunc(e, 800));
        }
        return 3;
    }
    if total.recoveries == 0 {
        eprintln!("MACHINERY-ERROR: vacuous (no recovery case)");
        return 3;
    }
    0
}
