//! C07 — the BRC20 bridge ledger is conserved and only the indexer can mint or burn.
//! Reference ledger folded over the surviving calls; compared with brc20_balance (every spelling
//! of the ticker), balanceOf and totalSupply at every block boundary.
use super::common::*;
use crate::explore::*;
use crate::hist::Scenario;
use crate::inst::Inst;
use crate::util::*;
use crate::world::*;
use alloy::primitives::{Address, Bytes, U256};
use alloy::sol_types::SolCall;
use serde_json::{json, Value};
use std::collections::BTreeMap;
use std::str::FromStr;

mod ctl {
    alloy::sol! {
        function transfer(bytes ticker, address to, uint256 value) returns (bool);
        function approve(bytes ticker, address spender, uint256 value) returns (bool);
        function transferFrom(bytes ticker, address from, address to, uint256 value) returns (bool);
        function mint(bytes ticker, address to, uint256 value) returns (bool);
        function burn(bytes ticker, address from, uint256 value) returns (bool);
        function getTickerAddress(bytes ticker) returns (address);
    }
}
mod tok {
    alloy::sol! {
        function transfer(address to, uint256 value) returns (bool);
        function approve(address spender, uint256 value) returns (bool);
        function transferFrom(address from, address to, uint256 value) returns (bool);
        function mint(address account, uint256 value) returns (bool);
        function burn(address account, uint256 value) returns (bool);
        function totalSupply() returns (uint256);
        function balanceOf(address account) returns (uint256);
    }
}

fn controller() -> Address {
    Address::from_str(CONTROLLER).unwrap()
}

/// The n-th token contract created by the controller (its CREATE nonce starts at 1).
fn token_addr(n: u64) -> Address {
    controller().create(n)
}

fn t(s: &str) -> Bytes {
    Bytes::from(s.as_bytes().to_vec())
}

fn call_ctl(pk: u8, data: Vec<u8>) -> TxSpec {
    TxSpec::Call { pk, tgt: Tgt::Controller, data, len: DEFAULT_LEN }
}

fn call_tok(pk: u8, n: u64, data: Vec<u8>) -> TxSpec {
    TxSpec::Call { pk, tgt: Tgt::Addr(addr_s(token_addr(n))), data, len: DEFAULT_LEN }
}

fn u(v: u64) -> U256 {
    U256::from(v)
}

type Ledger = BTreeMap<(Address, String), U256>;

struct Model {
    bal: Ledger,
    /// ticker -> creation order (1-based)
    tokens: Vec<String>,
    findings: Vec<(String, String)>,
}

fn parse_amount(s: &str) -> U256 {
    U256::from_str_radix(s.trim_start_matches("0x"), 16).unwrap_or(U256::ZERO)
}

fn status_ok(r: &Value) -> bool {
    r["status"].as_str() == Some("0x1")
}

impl Model {
    fn get(&self, a: Address, tk: &str) -> U256 {
        self.bal.get(&(a, tk.to_string())).cloned().unwrap_or(U256::ZERO)
    }
    fn add(&mut self, a: Address, tk: &str, v: U256) {
        let e = self.bal.entry((a, tk.to_string())).or_insert(U256::ZERO);
        *e = e.wrapping_add(v);
    }
    fn sub(&mut self, a: Address, tk: &str, v: U256) {
        let e = self.bal.entry((a, tk.to_string())).or_insert(U256::ZERO);
        *e = e.wrapping_sub(v);
    }
    fn supply(&self, tk: &str) -> U256 {
        self.bal.iter().filter(|((_, k), _)| k == tk).fold(U256::ZERO, |s, (_, v)| s.wrapping_add(*v))
    }
    fn ticker_of_token(&self, a: Address) -> Option<String> {
        self.tokens.iter().enumerate().find(|(i, _)| token_addr(*i as u64 + 1) == a).map(|(_, k)| k.clone())
    }

    fn transfer(&mut self, what: &str, tk: &str, from: Address, to: Address, v: U256, ok: bool) {
        if v > self.get(from, tk) && ok {
            self.findings.push(("transfer-exceeding-balance-succeeded".into(), format!("{}: {} of {} from {} (balance {}) succeeded", what, v, tk, from, self.get(from, tk))));
        }
        if ok {
            self.sub(from, tk, v);
            self.add(to, tk, v);
        }
        self.findings.push((format!("note:{}.{}", what, if ok { "succeeded" } else { "failed" }), String::new()));
    }

    /// fold one surviving call (params + the receipts it returned)
    fn apply(&mut self, call: &Call, receipts: &[Value]) {
        let p = &call.params;
        match call.method.as_str() {
            "brc20_deposit" | "brc20_withdraw" => {
                let Some(r) = receipts.first() else { return };
                let pk = p[if call.method == "brc20_deposit" { "to_pkscript" } else { "from_pkscript" }].as_str().unwrap_or("");
                let addr = Address::from_slice(&alloy::primitives::keccak256(hex::decode(pk).unwrap_or_default())[12..32]);
                let tk = p["ticker"].as_str().unwrap_or("").to_lowercase();
                let amt = parse_amount(p["amount"].as_str().unwrap_or("0x0"));
                let ok = status_ok(r);
                if call.method == "brc20_deposit" {
                    let overflow = self.supply(&tk).checked_add(amt).is_none();
                    if overflow && ok {
                        self.findings.push(("deposit-overflow-succeeded".into(), format!("deposit of {} {} overflowing the supply succeeded", amt, tk)));
                    }
                    self.findings.push((format!("note:deposit.{}{}", if ok { "succeeded" } else { "failed" }, if overflow { ".overflowing" } else { "" }), String::new()));
                    if ok {
                        if !self.tokens.contains(&tk) {
                            self.tokens.push(tk.clone());
                        }
                        self.add(addr, &tk, amt);
                    }
                } else {
                    let exceeds = amt > self.get(addr, &tk);
                    if exceeds && ok {
                        self.findings.push(("withdraw-exceeding-balance-succeeded".into(), format!("withdrawal of {} {} by {} (balance {}) succeeded", amt, tk, pk, self.get(addr, &tk))));
                    }
                    self.findings.push((format!("note:withdraw.{}{}", if ok { "succeeded" } else { "failed" }, if exceeds { ".exceeding" } else { "" }), String::new()));
                    if ok {
                        self.sub(addr, &tk, amt);
                    }
                }
            }
            "brc20_call" | "brc20_transact" | "brc20_deploy" => {
                for r in receipts {
                    let ok = status_ok(r);
                    let from = Address::from_str(r["from"].as_str().unwrap_or("")).unwrap_or_default();
                    let Some(to) = r["to"].as_str().and_then(|x| Address::from_str(x).ok()) else { continue };
                    // the call data: of the inscription, or of the signed transaction (served by hash); here
                    // only inscription calls and our own signed transfers are decoded
                    let data: Vec<u8> = match p.get("data").and_then(|d| d.as_str()) {
                        Some(d) => hex::decode(d.trim_start_matches("0x")).unwrap_or_default(),
                        None => r.get("__input").and_then(|d| d.as_str()).map(|d| hex::decode(d.trim_start_matches("0x")).unwrap_or_default()).unwrap_or_default(),
                    };
                    if to == controller() {
                        if let Ok(c) = ctl::transferCall::abi_decode(&data) {
                            let tk = String::from_utf8_lossy(&c.ticker).to_string();
                            self.transfer("controller.transfer", &tk, from, c.to, c.value, ok);
                        } else if let Ok(c) = ctl::transferFromCall::abi_decode(&data) {
                            let tk = String::from_utf8_lossy(&c.ticker).to_string();
                            self.transfer("controller.transferFrom", &tk, c.from, c.to, c.value, ok);
                        } else if ctl::mintCall::abi_decode(&data).is_ok() || ctl::burnCall::abi_decode(&data).is_ok() {
                            self.findings.push((format!("note:user-mint-burn-on-controller.{}", if ok { "succeeded" } else { "refused" }), String::new()));
                            if ok {
                                self.findings.push(("user-mint-or-burn-succeeded".into(), format!("{} called mint/burn on the controller and it succeeded: {}", from, canon(r))));
                            }
                        }
                    } else if let Some(tk) = self.ticker_of_token(to) {
                        if let Ok(c) = tok::transferCall::abi_decode(&data) {
                            self.transfer("token.transfer", &tk, from, c.to, c.value, ok);
                        } else if let Ok(c) = tok::transferFromCall::abi_decode(&data) {
                            self.transfer("token.transferFrom", &tk, c.from, c.to, c.value, ok);
                        } else if tok::mintCall::abi_decode(&data).is_ok() || tok::burnCall::abi_decode(&data).is_ok() {
                            self.findings.push((format!("note:user-mint-burn-on-token.{}", if ok { "succeeded" } else { "refused" }), String::new()));
                            if ok {
                                self.findings.push(("user-mint-or-burn-succeeded".into(), format!("{} called mint/burn on the token contract and it succeeded: {}", from, canon(r))));
                            }
                        }
                    }
                }
            }
            _ => {}
        }
    }
}

fn eth_call_u256(inst: &mut Inst, to: Address, data: Vec<u8>) -> Option<U256> {
    let r = inst.call("eth_call", json!([{"from": DEAD, "to": addr_s(to), "data": hx(&data)}, null]));
    let s = r.result()?.as_str()?.to_string();
    let b = hex::decode(s.trim_start_matches("0x")).ok()?;
    if b.len() < 32 {
        return None;
    }
    Some(U256::from_be_slice(&b[..32]))
}

// spellings include cased letters outside ASCII: "any bytes, any case"
// ... and two 33-byte tickers that differ in their last character only (distinct tickers are distinct tokens), and
// the empty ticker
const LONG_A: &str = "tttttttttttttttttttttttttttttttta";
const LONG_B: &str = "ttttttttttttttttttttttttttttttttb";
const SPELLINGS: &[&str] = &["ordi", "ORDI", "OrDi", "x", "X", "äbΩ", "ÄBω", "ÄBΩ", LONG_A, LONG_B, "TTTTTTTTTTTTTTTTTTTTTTTTTTTTTTTTA", ""];

fn check_ledger(inst: &mut Inst, world: &World) -> Vec<(String, String)> {
    let mut m = Model { bal: BTreeMap::new(), tokens: Vec::new(), findings: Vec::new() };
    for rec in world.nf_calls() {
        let out: Value = serde_json::from_str(&rec.outcome).unwrap_or(Value::Null);
        let mut receipts: Vec<Value> = match out.get("result") {
            Some(Value::Array(a)) => a.clone(),
            Some(Value::Object(o)) if o.contains_key("transactionHash") => vec![Value::Object(o.clone())],
            _ => vec![],
        };
        if rec.call.method == "brc20_transact" {
            for r in receipts.iter_mut() {
                let th = r["transactionHash"].clone();
                let tx = inst.call("eth_getTransactionByHash", json!([th]));
                if let Some(i) = tx.result().and_then(|t| t.get("input")).cloned() {
                    r["__input"] = i;
                }
            }
        }
        m.apply(&rec.call, &receipts);
    }
    let mut bad = std::mem::take(&mut m.findings);
    if world.count() != 0 {
        return bad;
    }
    // the three ordinary holders and four pairs of long pkscripts (35, 68, 105, 520 bytes) that differ in
    // their last byte only: distinct pkscripts are distinct holders
    let holders: Vec<(String, Address)> = (0..3u8).chain(0x40..0x48u8).map(|i| (pkscript(i), pk_addr(i))).collect();
    for (pk, addr) in &holders {
        for sp in SPELLINGS {
            let tk = sp.to_lowercase();
            let r = inst.call("brc20_balance", json!([pk, sp]));
            let got = r.result().and_then(|x| x.as_str()).map(parse_amount);
            let want = m.get(*addr, &tk);
            if got != Some(want) {
                bad.push(("balance-differs-from-ledger".into(), format!("brc20_balance({}, {}) = {:?} but deposits - withdrawals + transfers = {}", pk, sp, r.to_value().to_string(), want)));
            }
        }
    }
    for (i, tk) in m.tokens.clone().iter().enumerate() {
        let ta = token_addr(i as u64 + 1);
        let got = eth_call_u256(inst, controller(), ctl::getTickerAddressCall { ticker: t(tk) }.abi_encode());
        let mut w = [0u8; 32];
        w[12..].copy_from_slice(ta.as_slice());
        if got != Some(U256::from_be_bytes(w)) {
            bad.push(("token-address".into(), format!("token contract of {} expected at {} but the controller says {:?}", tk, ta, got)));
            continue;
        }
        let ts = eth_call_u256(inst, ta, tok::totalSupplyCall {}.abi_encode());
        if ts != Some(m.supply(tk)) {
            bad.push(("supply-differs-from-ledger".into(), format!("totalSupply of {} = {:?} but the ledger sums to {}", tk, ts, m.supply(tk))));
        }
        let mut sum = U256::ZERO;
        let mut all: Vec<Address> = holders.iter().map(|h| h.1).collect();
        all.push(crate::sign::signer_addr(0));
        all.push(Address::from_str(DEAD).unwrap());
        all.push(Tgt::s().resolve().unwrap().parse().unwrap());
        for a in all {
            let b = eth_call_u256(inst, ta, tok::balanceOfCall { account: a }.abi_encode()).unwrap_or(U256::ZERO);
            if b != m.get(a, tk) {
                bad.push(("holder-balance-differs-from-ledger".into(), format!("balanceOf({}) of {} = {} but the ledger says {}", a, tk, b, m.get(a, tk))));
            }
            sum = sum.wrapping_add(b);
        }
        if Some(sum) != ts {
            bad.push(("supply-not-sum-of-holders".into(), format!("totalSupply of {} = {:?} but the holders' balances sum to {}", tk, ts, sum)));
        }
    }
    bad
}

fn oracle(_sc: &Scenario) -> Option<BoundaryOracle<'static>> {
    Some(Box::new(|inst: &mut Inst, world: &World, _outs: &[StepOut]| {
        if world.desync {
            return Vec::new();
        }
        check_ledger(inst, world)
    }))
}

pub fn oracle_factory() -> crate::hist::OracleFactory {
    oracle
}

pub fn scenarios(tier: &str) -> Vec<Scenario> {
    let thorough = tier == "thorough";
    let dep = |pk: u8, tk: &str, a: &str| TxSpec::Deposit { pk, ticker: tk.into(), amount: a.into() };
    let wd = |pk: u8, tk: &str, a: &str| TxSpec::Withdraw { pk, ticker: tk.into(), amount: a.into() };
    let max = "0xffffffffffffffffffffffffffffffffffffffffffffffffffffffffffffffff";
    let p1 = pk_addr(1);
    let p2 = pk_addr(2);
    let sg = crate::sign::signer_addr(0);
    let alpha = vec![
        m_block("B(dep p1 ORDI 3)", vec![dep(1, "ORDI", "0x3")]),
        m_block("B(dep p2 ordi 0, dep p2 x 2)", vec![dep(2, "ordi", "0x0"), dep(2, "x", "0x2")]),
        m_block("B(dep p2 ordi MAX)", vec![dep(2, "ordi", max)]),
        m_block("B(wd p1 OrDi 2)", vec![wd(1, "OrDi", "0x2")]),
        m_block("B(dep p1 ÄBΩ 3, wd p1 äbω 1)", vec![dep(1, "ÄBΩ", "0x3"), wd(1, "äbω", "0x1")]),
        m_block("B(dep p2 äbΩ 2)", vec![dep(2, "äbΩ", "0x2")]),
        m_block("B(wd p1 ordi 9, wd p2 x 1)", vec![wd(1, "ordi", "0x9"), wd(2, "x", "0x1")]),
        m_block("B(p1 approve ctl, ctl.transfer p2 2)", vec![
            call_ctl(1, ctl::approveCall { ticker: t("ordi"), spender: controller(), value: U256::MAX }.abi_encode()),
            call_ctl(1, ctl::transferCall { ticker: t("ordi"), to: p2, value: u(2) }.abi_encode()),
        ]),
        m_block("B(p1 ctl.transfer p2 1 (no approval / ORDI))", vec![
            call_ctl(1, ctl::transferCall { ticker: t("ordi"), to: p2, value: u(1) }.abi_encode()),
            call_ctl(1, ctl::transferCall { ticker: t("ORDI"), to: p2, value: u(1) }.abi_encode()),
        ]),
        m_block("B(p1 tok.transfer p2 1, p1 tok.transfer signer 1, p1 tok.transfer p2 99)", vec![
            call_tok(1, 1, tok::transferCall { to: p2, value: u(1) }.abi_encode()),
            call_tok(1, 1, tok::transferCall { to: sg, value: u(1) }.abi_encode()),
            call_tok(1, 1, tok::transferCall { to: p2, value: u(99) }.abi_encode()),
        ]),
        m_block("B(p1 ctl.approve p2 2, p2 ctl.transferFrom p1->p2 1)", vec![
            call_ctl(1, ctl::approveCall { ticker: t("ordi"), spender: p2, value: u(2) }.abi_encode()),
            call_ctl(2, ctl::transferFromCall { ticker: t("ordi"), from: p1, to: p2, value: u(1) }.abi_encode()),
        ]),
        m_block("B(signer tok.transfer p2 1)", vec![TxSpec::Transact { signer: 0, nonce: 0, tgt: Tgt::Addr(addr_s(token_addr(1))), data: tok::transferCall { to: p2, value: u(1) }.abi_encode(), len: DEFAULT_LEN }]),
        m_block("B(adversarial mint/burn by p1)", vec![
            call_ctl(1, ctl::mintCall { ticker: t("ordi"), to: p1, value: u(5) }.abi_encode()),
            call_ctl(1, ctl::burnCall { ticker: t("ordi"), from: p2, value: u(1) }.abi_encode()),
            call_tok(1, 1, tok::mintCall { account: p1, value: u(5) }.abi_encode()),
            call_tok(1, 1, tok::burnCall { account: p2, value: u(1) }.abi_encode()),
            call_tok(1, 1, tok::transferFromCall { from: p2, to: p1, value: u(1) }.abi_encode()),
        ]),
        m_reorg(0, RTarget::Back(1)),
        m_commit(1),
        // refused bridge calls ("a withdrawal or transfer exceeding the balance fails and changes nothing" has a
        // sibling: a call the block protocol refuses moves no tokens either). The model does not see them.
        mac("refused: dep p1 ordi 7 carrying the hash of block 1", Kind::Dev(2), vec![Step::Bad(BadSpec::TxExistingHash { tx: dep(1, "ordi", "0x7"), height: 1 })]),
        mac("refused: wd p1 ordi 1 carrying the hash of block 1", Kind::Dev(2), vec![Step::Bad(BadSpec::TxExistingHash { tx: wd(1, "ordi", "0x1"), height: 1 })]),
        mac("refused: tok.transfer p1->p2 1 carrying the hash of block 0", Kind::Dev(2), vec![Step::Bad(BadSpec::TxExistingHash { tx: call_tok(1, 1, tok::transferCall { to: p2, value: u(1) }.abi_encode()), height: 0 })]),
        mac("B(dep p1 ordi 1, refused: wd with another timestamp, refused: dep p2 9 at index+1, refused: dep with another hash)", Kind::Dev(2), vec![
            Step::Tx(dep(1, "ordi", "0x1")),
            Step::Bad(BadSpec::TxTimestamp { tx: wd(1, "ordi", "0x1") }),
            Step::Bad(BadSpec::TxIdx { tx: dep(2, "ordi", "0x9"), idx: IdxSel::Plus1 }),
            Step::Bad(BadSpec::TxHash { tx: dep(2, "ordi", "0x9") }),
            Step::Fin,
        ]),
    ];
    // the refused calls get a scenario of their own (a smaller alphabet around them) so that the main one keeps
    // its depth within the quick budget
    let refused: Vec<Macro> = alpha.iter().filter(|m| m.kind == Kind::Dev(2)).cloned().collect();
    let mut refused_alpha: Vec<Macro> = alpha.iter().filter(|m| ["B(dep p1 ORDI 3)", "B(wd p1 OrDi 2)", "B(p1 tok.transfer p2 1, p1 tok.transfer signer 1, p1 tok.transfer p2 99)", "R-1", "C"].contains(&m.name.as_str())).cloned().collect();
    refused_alpha.extend(refused);
    let alpha: Vec<Macro> = alpha.into_iter().filter(|m| m.kind != Kind::Dev(2)).collect();
    // start: initialised, token "ordi" created by a first deposit (so that its address is fixed)
    let mut base = vec![Step::Init];
    base.extend(block(vec![dep(1, "ordi", "0x4")]));
    let mut opts = Opts::new("C07", "ledger");
    opts.nf_compare = false;
    opts.err_unchanged = false;
    // long pkscripts: deposits to one of a pair, withdrawals by the other (which holds nothing)
    let mut long_alpha = Vec::new();
    for fam in 0..4u8 {
        let (a, b) = (0x40 + 2 * fam, 0x41 + 2 * fam);
        long_alpha.push(m_block(&format!("B(dep L{}a ordi 5, wd L{}b ordi 1)", fam, fam), vec![dep(a, "ordi", "0x5"), wd(b, "ordi", "0x1")]));
        long_alpha.push(m_block(&format!("B(dep L{}b ordi 2, wd L{}a ordi 3)", fam, fam), vec![dep(b, "ordi", "0x2"), wd(a, "ordi", "0x3")]));
    }
    long_alpha.push(m_block("B(dep p1 <33 bytes..a> 5, dep p2 <33 bytes..b> 2, wd p1 <33 bytes..b> 1, wd p2 <..B upper case> 1)", vec![dep(1, LONG_A, "0x5"), dep(2, LONG_B, "0x2"), wd(1, LONG_B, "0x1"), wd(2, "TTTTTTTTTTTTTTTTTTTTTTTTTTTTTTTTB", "0x1")]));
    long_alpha.push(m_block("B(dep p1 <empty ticker> 3, wd p1 <empty ticker> 1)", vec![dep(1, "", "0x3"), wd(1, "", "0x1")]));
    long_alpha.push(m_reorg(0, RTarget::Back(1)));
    vec![
        Scenario {
            name: "ledger".into(),
            opts: opts.clone(),
            starts: vec![("initialised, 4 ordi deposited to p1".into(), base.clone())],
            alphabet: alpha,
            bounds: Bounds { depth: if thorough { 5 } else { 4 }, dev: vec![1, 1, 1], dev_total: 2 },
            weight: 4.0,
            network: "regtest".into(),
            traces: false,
        },
        // balances that rest longer than the undo window and then leave and return to the rested value
        Scenario {
            name: "ledger-after-rest".into(),
            opts: opts.clone(),
            starts: vec![("initialised, 4 ordi deposited to p1".into(), base.clone())],
            alphabet: vec![
                m_mine(W + 1),
                m_mine(W - 1),
                m_block("B(wd p1 ordi 2)", vec![wd(1, "ordi", "0x2")]),
                m_block("B(dep p1 ordi 2)", vec![dep(1, "ordi", "0x2")]),
                m_block("B(wd p1 ordi 2, dep p1 ordi 2)", vec![wd(1, "ordi", "0x2"), dep(1, "ordi", "0x2")]),
                m_block("B(dep p2 ordi 4, wd p2 ordi 4)", vec![dep(2, "ordi", "0x4"), wd(2, "ordi", "0x4")]),
                m_commit(1),
                m_reorg(0, RTarget::Back(1)),
            ],
            bounds: Bounds { depth: if thorough { 5 } else { 4 }, dev: vec![1, 1], dev_total: 2 },
            weight: 1.0,
            network: "regtest".into(),
            traces: false,
        },
        Scenario {
            name: "ledger-refused-calls".into(),
            opts: opts.clone(),
            starts: vec![("initialised, 4 ordi deposited to p1".into(), base.clone())],
            alphabet: refused_alpha,
            bounds: Bounds { depth: if thorough { 4 } else { 3 }, dev: vec![1, 1, 2], dev_total: 3 },
            weight: 1.0,
            network: "regtest".into(),
            traces: false,
        },
        Scenario {
            name: "ledger-long-pkscripts".into(),
            opts,
            starts: vec![("initialised, 4 ordi deposited to p1".into(), base)],
            alphabet: long_alpha,
            bounds: Bounds { depth: if thorough { 4 } else { 3 }, dev: vec![1], dev_total: 1 },
            weight: 1.0,
            network: "regtest".into(),
            traces: false,
        },
    ]
}
