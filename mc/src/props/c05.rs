//! C05 — a rejected indexer call changes nothing; the block protocol is enforced.
use super::common::*;
use crate::explore::*;
use crate::hist::Scenario;
use crate::world::*;

pub fn bad_menu() -> Vec<(String, BadSpec)> {
    let tx = s_set(0, 0, 5);
    let dep = TxSpec::Deposit { pk: 1, ticker: "ordi".into(), amount: "0x1".into() };
    let raw = TxSpec::Transact { signer: 1, nonce: 0, tgt: Tgt::s(), data: crate::asm::s_set(2, 2, 0, [0; 4]), len: DEFAULT_LEN };
    let park = TxSpec::Transact { signer: 1, nonce: 1, tgt: Tgt::s(), data: crate::asm::s_set(2, 2, 0, [0; 4]), len: DEFAULT_LEN };
    let gap = TxSpec::Transact { signer: 0, nonce: 0, tgt: Tgt::s(), data: crate::asm::s_set(1, 4, 0, [0; 4]), len: DEFAULT_LEN };
    vec![
        ("idx-1".into(), BadSpec::TxIdx { tx: tx.clone(), idx: IdxSel::Minus1 }),
        ("idx+1".into(), BadSpec::TxIdx { tx: tx.clone(), idx: IdxSel::Plus1 }),
        ("idxMAX".into(), BadSpec::TxIdx { tx: tx.clone(), idx: IdxSel::Max }),
        ("deposit-idx+1".into(), BadSpec::TxIdx { tx: dep, idx: IdxSel::Plus1 }),
        ("transact-idx+1".into(), BadSpec::TxIdx { tx: raw, idx: IdxSel::Plus1 }),
        ("parked-idx+1".into(), BadSpec::TxIdx { tx: park, idx: IdxSel::Plus1 }),
        // the transaction that would fill the gap in front of signer 0's waiting nonces, refused for a protocol
        // reason: the waiting ones must still be waiting afterwards
        ("gapfill-idx+1".into(), BadSpec::TxIdx { tx: gap.clone(), idx: IdxSel::Plus1 }),
        ("gapfill-ts".into(), BadSpec::TxTimestamp { tx: gap.clone() }),
        ("gapfill-hash".into(), BadSpec::TxHash { tx: gap.clone() }),
        ("gapfill-existing-hash".into(), BadSpec::TxExistingHash { tx: gap, height: 1 }),
        ("deposit-existing-hash".into(), BadSpec::TxExistingHash { tx: TxSpec::Deposit { pk: 1, ticker: "ordi".into(), amount: "0x1".into() }, height: 1 }),
        ("tx-ts".into(), BadSpec::TxTimestamp { tx: tx.clone() }),
        ("tx-hash".into(), BadSpec::TxHash { tx: tx.clone() }),
        ("tx-existing-hash".into(), BadSpec::TxExistingHash { tx: tx.clone(), height: 1 }),
        ("fin-count-1".into(), BadSpec::FinCount { idx: IdxSel::Minus1 }),
        ("fin-count+1".into(), BadSpec::FinCount { idx: IdxSel::Plus1 }),
        ("fin-ts".into(), BadSpec::FinTimestamp),
        ("fin-hash".into(), BadSpec::FinHash),
        ("fin-existing-hash".into(), BadSpec::FinExistingHash { height: 0 }),
        ("commit-open".into(), BadSpec::CommitWhileOpen),
        ("reorg-open".into(), BadSpec::ReorgWhileOpen),
        ("mine-open".into(), BadSpec::MineWhileOpen),
        ("both-encodings".into(), BadSpec::BothEncodings { tx: tx.clone() }),
        ("neither-encoding".into(), BadSpec::NeitherEncoding { tx }),
        ("init-mismatch".into(), BadSpec::InitMismatch),
        ("init-missing-parent".into(), BadSpec::InitMissingParent),
        ("bad-pkscript".into(), BadSpec::BadPkscript),
        ("bad-rawtx".into(), BadSpec::BadRawTx),
    ]
}

pub fn scenarios(tier: &str) -> Vec<Scenario> {
    let thorough = tier == "thorough";
    let park1 = TxSpec::Transact { signer: 0, nonce: 1, tgt: Tgt::s(), data: crate::asm::s_set(1, 3, 0, [0; 4]), len: DEFAULT_LEN };
    let park2 = TxSpec::Transact { signer: 0, nonce: 2, tgt: Tgt::s(), data: crate::asm::s_set(1, 5, 0, [0; 4]), len: DEFAULT_LEN };
    let exec0 = TxSpec::Transact { signer: 0, nonce: 0, tgt: Tgt::s(), data: crate::asm::s_set(1, 4, 0, [0; 4]), len: DEFAULT_LEN };
    let park1b = park1.clone();
    let mut alpha = vec![
        mac("T(set0=1)", Kind::Growth, vec![Step::Tx(s_set(0, 0, 1))]),
        mac("T(s0,n1)", Kind::Growth, vec![Step::Tx(park1.clone())]),
        mac("T(s0,n0)", Kind::Growth, vec![Step::Tx(exec0.clone())]),
        mac("F", Kind::Growth, vec![Step::Fin]),
    ];
    for (n, b) in bad_menu() {
        alpha.push(mac(&format!("bad:{}", n), Kind::Dev(0), vec![Step::Bad(b)]));
    }
    let base = start_with_s();
    let mut committed = base.clone();
    committed.extend(block(vec![s_set(0, 0, 1)]));
    committed.push(Step::Commit);
    // a parked nonce 1 that expires in the block that drains it, with nonce 2 parked later
    let mut expiring = base.clone();
    expiring.extend(block(vec![park1]));
    expiring.push(Step::Mine(2));
    expiring.extend(block(vec![park2]));
    expiring.push(Step::Mine(P_BLOCKS - 4));
    // empty database (no genesis)
    let empty: Vec<Step> = vec![];
    let mut v = vec![
        Scenario {
            name: "bad-calls".into(),
            opts: Opts::new("C05", "bad"),
            starts: vec![("S deployed in block 1".into(), base), ("one block committed".into(), committed)],
            alphabet: alpha.clone(),
            bounds: Bounds { depth: if thorough { 5 } else { 4 }, dev: vec![if thorough { 2 } else { 1 }], dev_total: 2 },
            weight: 4.0,
            network: "regtest".into(),
            traces: true,
        },
        Scenario {
            name: "bad-calls-expiring-pool".into(),
            opts: Opts::new("C05", "bad"),
            starts: vec![("nonce 1 parked P blocks ago, nonce 2 parked later".into(), expiring)],
            alphabet: alpha,
            bounds: Bounds { depth: 3, dev: vec![1], dev_total: 1 },
            weight: 1.0,
            network: "regtest".into(),
            traces: true,
        },
    ];
    // refused reorgs: too deep below the height, above the height, and — after an accepted reorg has lowered the tip —
    // within 10 of the height but more than 10 below the highest block ever finalised (the two depth checks sit in
    // different layers). A refused reorg "changes nothing" like every other refused call.
    {
        let set1 = m_block("B(set0=1)", vec![s_set(0, 0, 1)]);
        let park = m_block("B(T(s0,n1))", vec![park1b.clone()]);
        let reorg_alpha = vec![
            set1.clone(), park.clone(), m_mine(1), m_mine(W - 1), m_commit(1),
            m_reorg(0, RTarget::Back(1)), m_reorg(0, RTarget::Back(5)), m_reorg(0, RTarget::Back(W)), m_reorg(0, RTarget::Back(W + 1)), m_reorg(0, RTarget::Abs(0)), m_reorg(0, RTarget::Abs(1)), m_reorg(0, RTarget::Fwd(1)),
        ];
        let mut lowered = start_with_s();
        lowered.extend(set1.steps.clone());
        lowered.extend(park.steps.clone());
        lowered.push(Step::Mine(W - 1));
        lowered.extend(set1.steps.clone());
        lowered.push(Step::Reorg(RTarget::Back(5)));
        v.push(Scenario {
            name: "refused-reorgs".into(),
            opts: Opts::new("C05", "reorgs"),
            starts: vec![("S deployed in block 1".into(), start_with_s()), ("13 blocks finalised, reorged to block 8".into(), lowered)],
            alphabet: reorg_alpha,
            bounds: Bounds { depth: if thorough { 4 } else { 3 }, dev: vec![2, 1], dev_total: 3 },
            weight: 1.5,
            network: "regtest".into(),
            traces: true,
        });
    }
    // initialise variants on an empty database
    let init_alpha = vec![
        mac("init(0)", Kind::Growth, vec![Step::Init]),
        mac("M1", Kind::Growth, vec![Step::Mine(1)]),
        mac("bad:init-height-5", Kind::Dev(0), vec![Step::Bad(BadSpec::Literal { method: "brc20_initialise".into(), params: serde_json::json!({"genesis_hash": crate::util::zero32(), "genesis_timestamp": 1, "genesis_height": 5}), must_reject: true })]),
        mac("bad:init-mismatch", Kind::Dev(0), vec![Step::Bad(BadSpec::InitMismatch)]),
        mac("bad:fin-count+1", Kind::Dev(0), vec![Step::Bad(BadSpec::FinCount { idx: IdxSel::Plus1 })]),
        mac("C", Kind::Dev(1), vec![Step::Commit]),
    ];
    v.push(Scenario {
        name: "bad-initialise".into(),
        opts: Opts::new("C05", "init"),
        starts: vec![("empty database".into(), empty)],
        alphabet: init_alpha,
        bounds: Bounds { depth: 3, dev: vec![2, 1], dev_total: 2 },
        weight: 0.5,
        network: "regtest".into(),
        traces: true,
    });
    v
}
