//! C15 — inscription payload decoding is lossless, bounded and encoding-independent.
use crate::evidence::Evidence;
use crate::inst::{panic_text, Inst};
use crate::util::*;
use crate::world::*;
use alloy::primitives::Bytes;
use base64::prelude::BASE64_STANDARD_NO_PAD;
use base64::Engine;
use brc20_prog::types::Base64Bytes;
use brc20_prog::verif::{decode_bytes_from_inscription_data as decode, CALLDATA_LIMIT};
use serde_json::{json, Value};
use std::panic::{catch_unwind, AssertUnwindSafe};
use std::sync::atomic::{AtomicU64, Ordering};
use std::sync::Mutex;
use std::time::Instant;

struct Acc {
    evals: AtomicU64,
    distinct: AtomicU64,
    encoder_refused: AtomicU64,
    viol: Mutex<Vec<(String, String)>>,
    prefix_seen: [AtomicU64; 3],
}

fn dec(s: &str) -> Result<Option<Bytes>, String> {
    catch_unwind(AssertUnwindSafe(|| decode(s))).map_err(|p| panic_text(&p))
}

/// Round trip of one byte string through the published encoder, with 0..3 '=' appended.
fn roundtrip(a: &Acc, bytes: &[u8]) {
    a.evals.fetch_add(1, Ordering::Relaxed);
    let enc = catch_unwind(AssertUnwindSafe(|| Base64Bytes::from_bytes(Bytes::from(bytes.to_vec()))));
    let enc = match enc {
        Ok(Ok(e)) => e.to_string(),
        Ok(Err(_)) => {
            // the encoder itself refused (incompressible input close to the limit): nothing was packed
            a.encoder_refused.fetch_add(1, Ordering::Relaxed);
            return;
        }
        Err(p) => {
            a.viol.lock().unwrap().push(("encoder-panic".into(), format!("from_bytes panicked on {} bytes: {}", bytes.len(), panic_text(&p))));
            return;
        }
    };
    if let Ok(raw) = BASE64_STANDARD_NO_PAD.decode(&enc) {
        if let Some(p) = raw.first() {
            if (*p as usize) < 3 {
                a.prefix_seen[*p as usize].fetch_add(1, Ordering::Relaxed);
            }
        }
    }
    a.distinct.fetch_add(1, Ordering::Relaxed);
    for pad in 0..4 {
        let s = format!("{}{}", enc, "=".repeat(pad));
        match dec(&s) {
            Ok(Some(d)) if d.as_ref() == bytes => {}
            Ok(other) => {
                let mut v = a.viol.lock().unwrap();
                if v.len() < 30 {
                    v.push(("roundtrip".into(), format!("{} bytes (first {:02x?}) packed as {}… with {} '=' decode to {:?}", bytes.len(), &bytes[..bytes.len().min(8)], &enc[..enc.len().min(24)], pad, other.map(|d| d.len()))));
                }
            }
            Err(p) => {
                let mut v = a.viol.lock().unwrap();
                if v.len() < 30 {
                    v.push(("panic".into(), format!("decoding {}… panicked: {}", &s[..s.len().min(24)], p)));
                }
            }
        }
    }
}

/// Arbitrary text handed to the decoder: never more than the limit, never a panic.
fn bounded(a: &Acc, s: &str, what: &str) {
    a.evals.fetch_add(1, Ordering::Relaxed);
    match dec(s) {
        Ok(Some(d)) if d.len() > CALLDATA_LIMIT => a.viol.lock().unwrap().push(("over-limit".into(), format!("{}: decoded {} bytes (limit {})", what, d.len(), CALLDATA_LIMIT))),
        Ok(_) => {}
        Err(p) => {
            let mut v = a.viol.lock().unwrap();
            if v.len() < 30 {
                v.push(("panic".into(), format!("{}: decoder panicked on {:?}: {}", what, &s[..s.len().min(16)], p)));
            }
        }
    }
}

fn content(class: usize, len: usize) -> Vec<u8> {
    match class {
        0 => vec![0u8; len],
        1 => vec![0xffu8; len],
        2 => (0..len).map(|i| if i % 2 == 0 { 0xaa } else { 0x55 }).collect(),
        3 => (0..len).map(|i| if i % 17 == 0 { (i % 251) as u8 + 1 } else { 0 }).collect(),
        _ => {
            let mut x: u64 = 0x9E3779B97F4A7C15 ^ len as u64;
            (0..len)
                .map(|_| {
                    x ^= x << 13;
                    x ^= x >> 7;
                    x ^= x << 17;
                    (x >> 24) as u8
                })
                .collect()
        }
    }
}

fn zstd(data: &[u8], with_size: bool) -> Vec<u8> {
    let mut out = vec![0u8; zstd_safe::compress_bound(data.len()) + 64];
    if with_size {
        let n = zstd_safe::compress(out.as_mut_slice(), data, 3).expect("zstd");
        out.truncate(n);
        out
    } else {
        let mut cctx = zstd_safe::CCtx::create();
        cctx.set_parameter(zstd_safe::CParameter::ContentSizeFlag(false)).expect("param");
        let n = cctx.compress2(out.as_mut_slice(), data).expect("zstd");
        out.truncate(n);
        out
    }
}

fn b64(prefix: u8, payload: &[u8]) -> String {
    let mut v = vec![prefix];
    v.extend_from_slice(payload);
    BASE64_STANDARD_NO_PAD.encode(v)
}

/// the same bytes through the hex field and through the base64 field give identical results
fn field_equivalence(a: &Acc, samples: &mut Vec<Value>) {
    crate::inst::set_config("regtest", true);
    let payloads: Vec<Vec<u8>> = vec![
        vec![], vec![0], vec![0xff], crate::asm::s_initcode(), crate::asm::ctx_initcode(), crate::asm::s_set(0, 1, 2, [1, 2, 0, 0]), vec![2], vec![6, 0], vec![0; 100], content(4, 300), content(3, 5000), vec![0x60, 0x00, 0x60, 0x00, 0xf3],
    ];
    // large payloads (0.1 LIMIT zero-heavy, the full LIMIT of zeros, 0.7 LIMIT incompressible): once per kind
    let n_small_payloads = payloads.len();
    let mut payloads = payloads;
    payloads.push(content(3, CALLDATA_LIMIT / 10));
    payloads.push(content(0, CALLDATA_LIMIT));
    payloads.push(content(4, CALLDATA_LIMIT * 7 / 10));
    let mut h = Inst::fresh();
    let mut b = Inst::fresh();
    for (pi, pl) in payloads.iter().enumerate() {
        let enc = Base64Bytes::from_bytes(Bytes::from(pl.clone())).expect("encode").to_string();
        for kind in ["deploy", "call", "transact"] {
            for pad in [0usize, 2] {
                if pi >= n_small_payloads && (pad != 0 || (kind == "transact" && pl.len() > CALLDATA_LIMIT / 2)) {
                    // (a signed transaction wrapping the payload is longer than the payload: the biggest ones
                    // would exceed the limit as raw transactions)
                    continue;
                }
                h.wipe();
                b.wipe();
                let mut outs = Vec::new();
                for (inst, use_hex) in [(&mut h, true), (&mut b, false)] {
                    let mut w = World::new();
                    let mut o = Vec::new();
                    for s in crate::props::common::start_with_s() {
                        w.exec(inst, &s);
                    }
                    let tx = match kind {
                        "deploy" => TxSpec::Deploy { pk: 1, code: pl.clone(), len: DEFAULT_LEN },
                        "call" => TxSpec::Call { pk: 1, tgt: Tgt::s(), data: pl.clone(), len: DEFAULT_LEN },
                        _ => TxSpec::TransactRaw { raw: crate::sign::raw_tx(0, crate::inst::chain_id(), 0, Some(Tgt::s().resolve().unwrap().parse().unwrap()), pl), len: DEFAULT_LEN },
                    };
                    let (ts, sent, _) = w.block_params();
                    let mut c = w.tx_call(&tx, 0, ts, &sent);
                    if !use_hex {
                        let p = c.params.as_object_mut().unwrap();
                        let (hk, bk) = if kind == "transact" { ("raw_tx_data", "base64_raw_tx_data") } else { ("data", "base64_data") };
                        let raw = hex::decode(p[hk].as_str().unwrap().trim_start_matches("0x")).unwrap();
                        let e = if kind == "transact" { Base64Bytes::from_bytes(Bytes::from(raw)).expect("encode").to_string() } else { enc.clone() };
                        p.remove(hk);
                        p.insert(bk.to_string(), json!(format!("{}{}", e, "=".repeat(pad))));
                    }
                    let r = inst.call(&c.method, c.params.clone());
                    o.push(canon(&r.to_value()));
                    let f = inst.call("brc20_finaliseBlock", json!({"timestamp": ts, "hash": sent, "block_tx_count": 1}));
                    o.push(canon(&f.to_value()));
                    w.uni.scan(&r.to_value());
                    w.uni.max_height = 2;
                    o.push(crate::obs::obs(inst, &w.uni, &crate::obs::ObsCfg::default()));
                    outs.push(o);
                }
                a.evals.fetch_add(1, Ordering::Relaxed);
                if outs[0] != outs[1] {
                    let d = outs[0].iter().zip(outs[1].iter()).find(|(x, y)| x != y).map(|(x, y)| first_diff(x, y)).unwrap_or_default();
                    a.viol.lock().unwrap().push(("field-equivalence".into(), format!("{} of payload #{} ({} bytes): hex field and base64 field (+{} '=') differ: {}", kind, pi, pl.len(), pad, d)));
                }
                if samples.len() < 4 {
                    samples.push(json!({"equivalence": kind, "payload_len": pl.len(), "base64": enc.chars().take(40).collect::<String>()}));
                }
            }
        }
    }
}

pub fn run(tier: &str, seed: u64) -> i32 {
    let t0 = Instant::now();
    let thorough = tier == "thorough";
    let a = Acc { evals: AtomicU64::new(0), distinct: AtomicU64::new(0), encoder_refused: AtomicU64::new(0), viol: Mutex::new(Vec::new()), prefix_seen: [AtomicU64::new(0), AtomicU64::new(0), AtomicU64::new(0)] };
    let limit = CALLDATA_LIMIT;
    // 1. every byte string of length <= 2 (thorough) / <= 1 plus a 4096-string slice of length 2 (quick)
    let mut small: Vec<Vec<u8>> = vec![vec![]];
    for x in 0..=255u8 {
        small.push(vec![x]);
    }
    for x in 0..=255u16 {
        for y in 0..=255u16 {
            if thorough || (x % 16 == 0 && y % 16 == (seed % 16) as u16) || x == y || x == 0 || y == 0 || x == 255 || y == 255 {
                small.push(vec![x as u8, y as u8]);
            }
        }
    }
    // 2. length grid x content classes
    let mut lens: Vec<usize> = vec![3, 31, 32, 33, 1000, 65536, limit / 2];
    for l in (limit - 64)..=(limit + 2) {
        if thorough || l >= limit - 3 || l % 16 == 0 {
            lens.push(l);
        }
    }
    // incompressible strings between LIMIT/2 and LIMIT: the packed form is the raw one and its base64 text is
    // longer than LIMIT characters from 3/4 LIMIT on (the encoder itself refuses above ~LIMIT - LIMIT/256,
    // where zstd's output no longer fits its buffer)
    let mut incompressible: Vec<usize> = vec![limit * 3 / 4 - 2, limit * 3 / 4 - 1, limit * 3 / 4, limit * 3 / 4 + 1, limit - limit / 128];
    if thorough {
        incompressible.extend([limit * 5 / 8, limit * 7 / 8, limit - limit / 200, limit - limit / 256, limit - limit / 300]);
    }
    let mut big: Vec<Vec<u8>> = Vec::new();
    for l in &lens {
        for c in 0..5 {
            if *l > 70000 && c == 4 && !thorough && *l != limit && *l != limit - 1 {
                continue;
            }
            big.push(content(c, *l));
        }
    }
    for l in &incompressible {
        big.push(content(4, *l));
        lens.push(*l);
    }
    let all: Vec<&Vec<u8>> = small.iter().chain(big.iter()).collect();
    let n_small = small.len();
    let next = AtomicU64::new(0);
    std::thread::scope(|s| {
        for _ in 0..16 {
            s.spawn(|| loop {
                let i = next.fetch_add(1, Ordering::Relaxed) as usize;
                if i >= all.len() {
                    break;
                }
                // strings above the limit need not round-trip, but must never decode to more than the limit
                if all[i].len() <= limit {
                    roundtrip(&a, all[i]);
                } else if let Ok(Ok(e)) = catch_unwind(AssertUnwindSafe(|| Base64Bytes::from_bytes(Bytes::from(all[i].clone())))) {
                    bounded(&a, &e.to_string(), "encoder output for an over-long string");
                }
            });
        }
    });
    // 3. hand-forced prefixes at the size boundary, bombs, unknown prefixes, degenerate strings
    let mut forced = 0u64;
    for l in [limit - 1, limit, limit + 1] {
        for c in [0usize, 4] {
            let data = content(c, l);
            bounded(&a, &b64(0, &data), &format!("raw prefix, {} payload bytes", l));
            bounded(&a, &b64(1, &nada::encode(data.iter().cloned())), &format!("nada prefix, {} payload bytes", l));
            bounded(&a, &b64(2, &zstd(&data, true)), &format!("zstd prefix with frame size, {} payload bytes", l));
            bounded(&a, &b64(2, &zstd(&data, false)), &format!("zstd prefix without frame size, {} payload bytes", l));
            forced += 4;
        }
    }
    // a raw / nada / zstd payload strictly below the limit must decode (lossless side of the boundary)
    for l in [limit - 2] {
        let data = content(0, l);
        for (name, s) in [("nada", b64(1, &nada::encode(data.iter().cloned()))), ("zstd", b64(2, &zstd(&data, true))), ("zstd-nosize", b64(2, &zstd(&data, false)))] {
            a.evals.fetch_add(1, Ordering::Relaxed);
            match dec(&s) {
                Ok(Some(d)) if d.as_ref() == data.as_slice() => {}
                other => a.viol.lock().unwrap().push(("boundary-roundtrip".into(), format!("{} of {} zero bytes decodes to {:?}", name, l, other.map(|o| o.map(|d| d.len()))))),
            }
        }
    }
    let bomb = vec![0u8; 64 << 20];
    bounded(&a, &b64(2, &zstd(&bomb, true)), "zstd bomb 64 MiB with frame size");
    bounded(&a, &b64(2, &zstd(&bomb, false)), "zstd bomb 64 MiB without frame size");
    bounded(&a, &b64(1, &nada::encode(bomb.iter().cloned())), "nada bomb 64 MiB");
    drop(bomb);
    // several zstd frames in one payload: the declared size of the first frame says nothing about the total
    {
        let half = zstd(&content(3, limit * 6 / 10), true);
        let small = zstd(&content(3, 1000), true);
        let mut two = half.clone();
        two.extend_from_slice(&half);
        bounded(&a, &b64(2, &two), "two zstd frames of 0.6 LIMIT each");
        let mut many = Vec::new();
        for _ in 0..1100 {
            many.extend_from_slice(&small);
        }
        bounded(&a, &b64(2, &many), "1100 zstd frames of 1000 bytes");
        let mut skippable = vec![0x50, 0x2a, 0x4d, 0x18, 4, 0, 0, 0, 1, 2, 3, 4];
        skippable.extend_from_slice(&half);
        skippable.extend_from_slice(&half);
        bounded(&a, &b64(2, &skippable), "skippable frame followed by two frames of 0.6 LIMIT");
        let mut ok2 = small.clone();
        ok2.extend_from_slice(&small);
        bounded(&a, &b64(2, &ok2), "two zstd frames of 1000 bytes");
        forced += 4;
    }
    // frame headers that only declare a content size (0, 1, LIMIT, LIMIT+1, 2^32-1, 2^63, 2^63+1, 2^64-1, ...)
    for f in super::c09::forged_zstd_headers(false) {
        bounded(&a, &b64(2, &f), &format!("forged zstd frame header {}", hx(&f[..f.len().min(14)])));
        forced += 1;
    }
    for p in 3..=255u8 {
        bounded(&a, &b64(p, &[1, 2, 3]), "unknown prefix");
        a.evals.fetch_add(1, Ordering::Relaxed);
        if let Ok(Some(_)) = dec(&b64(p, &[1, 2, 3])) {
            a.viol.lock().unwrap().push(("unknown-prefix-accepted".into(), format!("prefix {} decoded", p)));
        }
    }
    for s in ["", "=", "==", "===", "A", "A=", "AA", "AA==", "AQ", "Ag", "AA=A", "!!!!", " ", "AAAA=AAAA", "Ag==", "AgA", "AQA"] {
        bounded(&a, s, "degenerate string");
    }
    for cut in [1usize, 2, 5, 9] {
        let z = zstd(&content(3, 500), true);
        bounded(&a, &b64(2, &z[..z.len().saturating_sub(cut)]), "truncated zstd frame");
        bounded(&a, &b64(2, &z[..cut.min(z.len())]), "zstd frame header only");
    }
    // 4. hex field == base64 field
    let mut samples: Vec<Value> = vec![json!({"roundtrip": "every byte string of length <= 2 in the thorough tier", "count": n_small}), json!({"lengths": lens.iter().take(12).collect::<Vec<_>>(), "classes": ["zeros", "0xff", "alternating", "zero-heavy", "xorshift"]})];
    field_equivalence(&a, &mut samples);

    let viol = a.viol.into_inner().unwrap();
    let mut ev = Evidence::new("C15", tier, seed, "exploration");
    ev.coverage = json!({
        "evaluations": a.evals.load(Ordering::Relaxed), "distinct_nontrivial": a.distinct.load(Ordering::Relaxed),
        "rule": "byte strings: all of length <= 1, all of length 2 (thorough; quick: a seed-rotated slice plus all with a 0x00 / 0xff byte or equal bytes), and lengths {3,31,32,33,1000,65536,LIMIT/2,LIMIT-64..LIMIT+2} x 5 content classes, incompressible strings of 3/4 LIMIT - 2 .. 3/4 LIMIT + 1 and LIMIT - LIMIT/128 bytes (thorough: five more lengths between 5/8 LIMIT and LIMIT - LIMIT/300), each packed with the published encoder and decoded with 0..3 '=' appended; hand-forced raw / nada / zstd payloads of LIMIT-1, LIMIT, LIMIT+1 bytes with and without declared frame size; 64 MiB bombs; prefixes 3..255; degenerate and truncated strings; 12 payloads x {deploy, call, transact} x padding through the hex field and through the base64 field on twin instances. distinct = strings the encoder packed",
        "samples": samples,
        "encoder_refused": a.encoder_refused.load(Ordering::Relaxed), "forced_boundary_cases": forced,
        "prefix_chosen_by_encoder": {"raw": a.prefix_seen[0].load(Ordering::Relaxed), "nada": a.prefix_seen[1].load(Ordering::Relaxed), "zstd": a.prefix_seen[2].load(Ordering::Relaxed)},
        "exhaustive": true,
    });
    ev.assumptions = vec!["a string the published encoder refuses to pack (incompressible input within ~0.1% of the limit: its zstd scratch buffer is the limit itself) is outside the statement".into()];
    let vs: Vec<crate::explore::Violation> = viol.iter().map(|(k, d)| crate::explore::Violation { property: "C15".into(), kind: k.clone(), scenario: "payload".into(), start: "".into(), path: vec![d.chars().take(100).collect()], steps: vec![], detail: d.clone() }).collect();
    let (new, known) = crate::evidence::triage("C15", vs);
    ev.violations = new.len() as i64;
    ev.wall_s = t0.elapsed().as_secs_f64();
    ev.write();
    println!("C15 {}: {} evaluations, {} strings packed (raw {}, nada {}, zstd {}), encoder refused {}, wall={:.1}s", tier, a.evals.load(Ordering::Relaxed), a.distinct.load(Ordering::Relaxed), a.prefix_seen[0].load(Ordering::Relaxed), a.prefix_seen[1].load(Ordering::Relaxed), a.prefix_seen[2].load(Ordering::Relaxed), a.encoder_refused.load(Ordering::Relaxed), ev.wall_s);
    crate::inst::cleanup_scratch();
    let mut seen = std::collections::BTreeSet::new();
    for (id, _) in &known {
        if seen.insert(id.clone()) {
            println!("KNOWN-FINDING: property=C15 {}", id);
        }
    }
    if !new.is_empty() {
        for v in new.iter().take(10) {
            println!("VIOLATION property=C15 replay={}", crate::evidence::write_replay(v));
            println!("  {} {}", v.kind, crate::explore::trunc(&v.detail, 800));
        }
        return 1;
    }
    0
}
