//! C13 — versioned tables behave like a simple map with a W-block undo window.
//! (a) explicit-state BFS over the pure `BlockHistoryCacheData`, (b) BFS over `BlockCachedDatabase`
//! and `BlockDatabase` on real RocksDB instances, both against the reference model of Appendix D.
use crate::evidence::Evidence;
use crate::inst::{fresh_dir, panic_text};
use crate::util::*;
use crate::world::W;
use brc20_prog::verif::types::U64ED;
use brc20_prog::verif::{BlockCachedDatabase, BlockDatabase, BlockHistoryCache, BlockHistoryCacheData, Decode, Encode};
use serde_json::{json, Value};
use std::collections::{BTreeMap, HashSet};
use std::panic::{catch_unwind, AssertUnwindSafe};
use std::time::Instant;

type H = BlockHistoryCacheData<U64ED>;

#[derive(Clone, Debug, PartialEq, Eq, Hash)]
enum HOp {
    Set(u64),
    Unset,
    Next,
    Skip,
    Reorg(u64),
}

#[derive(Clone)]
struct HState {
    obj: H,
    cur: u64,
    /// every effective write, oldest first
    model: Vec<(u64, Option<u64>)>,
    /// the largest block number the object was ever given in a set / unset (Appendix D: `top`);
    /// it does not go down when writes are rolled back
    top: u64,
    path: Vec<HOp>,
}

fn model_at(m: &[(u64, Option<u64>)], n: u64) -> Option<u64> {
    m.iter().rev().find(|(b, _)| *b <= n).and_then(|(_, v)| *v)
}

fn versions(bytes: &[u8]) -> u32 {
    u32::from_be_bytes([bytes[0], bytes[1], bytes[2], bytes[3]])
}

pub struct PartA {
    pub states: u64,
    pub transitions: u64,
    pub depth: usize,
    pub reorg_within: u64,
    pub reorg_deeper_loud: u64,
    pub reorg_deeper_right: u64,
    pub max_versions: u32,
    pub violation: Option<(String, Value)>,
    pub complete: bool,
}

fn hstep(s: &HState, op: &HOp, a: &mut PartA) -> Result<Option<HState>, String> {
    let mut n = s.clone();
    n.path.push(op.clone());
    match op {
        HOp::Set(v) => {
            n.obj.set(n.cur, U64ED::from(*v));
            n.top = n.top.max(n.cur);
            if model_at(&n.model, u64::MAX) != Some(*v) {
                n.model.push((n.cur, Some(*v)));
            }
        }
        HOp::Unset => {
            n.obj.unset(n.cur);
            n.top = n.top.max(n.cur);
            if model_at(&n.model, u64::MAX).is_some() {
                n.model.push((n.cur, None));
            }
        }
        HOp::Next => n.cur += 1,
        HOp::Skip => n.cur += W - 1,
        HOp::Reorg(j) => {
            let Some(target) = n.cur.checked_sub(*j) else { return Ok(None) };
            let newest = n.top;
            let within = newest.saturating_sub(target) <= W;
            let want = model_at(&n.model, target);
            // the same rollback on the history as it comes back from disk (commit + clear + reload replace the
            // object by decode(encode(object))): same answer, and loud only where the live object is loud
            if let Ok(mut reloaded) = H::decode_vec(&n.obj.encode_vec()) {
                let r2 = catch_unwind(AssertUnwindSafe(|| {
                    reloaded.reorg(target);
                    reloaded.latest().map(|x| x.uint.to::<u64>())
                }));
                match r2 {
                    Ok(got) if got != want => return Err(format!("reorg to block {} on the history as reloaded from its encoded form: latest() = {:?}, the value at the end of that block was {:?}", target, got, want)),
                    Err(p) if within => return Err(format!("reorg to block {} within the window of the highest block ever written {} panicked on the history as reloaded from its encoded form: {}", target, newest, panic_text(&p))),
                    _ => {}
                }
            }
            let mut obj = n.obj.clone();
            let r = catch_unwind(AssertUnwindSafe(|| {
                obj.reorg(target);
                obj
            }));
            match r {
                Ok(o) => {
                    let got: Option<u64> = o.latest().map(|x| x.uint.to::<u64>());
                    if got != want {
                        return Err(format!("reorg to block {} ({} below the highest block ever written {}): latest() = {:?}, the value at the end of that block was {:?}", target, newest.saturating_sub(target), newest, got, want));
                    }
                    if within {
                        a.reorg_within += 1;
                    } else {
                        a.reorg_deeper_right += 1;
                    }
                    n.obj = o;
                    n.model.retain(|(b, _)| *b <= target);
                    n.cur = target;
                }
                Err(p) => {
                    if within {
                        return Err(format!("reorg to block {} within the window of the highest block ever written {} panicked: {}", target, newest, panic_text(&p)));
                    }
                    a.reorg_deeper_loud += 1;
                    return Ok(None); // loud refusal: the object is gone
                }
            }
        }
    }
    // invariants in every state
    let got = n.obj.latest().map(|x| x.uint.to::<u64>());
    let want = model_at(&n.model, u64::MAX);
    if got != want {
        return Err(format!("latest() = {:?} but the model says {:?}", got, want));
    }
    let bytes = n.obj.encode_vec();
    let nv = versions(&bytes);
    a.max_versions = a.max_versions.max(nv);
    if nv as u64 > W + 1 {
        return Err(format!("{} versions retained (more than {})", nv, W + 1));
    }
    match H::decode_vec(&bytes) {
        Ok(d) => {
            if d.encode_vec() != bytes {
                return Err("decode(encode(x)) re-encodes differently".into());
            }
        }
        Err(e) => return Err(format!("encoded history does not decode: {}", e)),
    }
    Ok(Some(n))
}

pub fn part_a(depth: usize, deadline: Instant) -> PartA {
    let mut a = PartA { states: 0, transitions: 0, depth: 0, reorg_within: 0, reorg_deeper_loud: 0, reorg_deeper_right: 0, max_versions: 0, violation: None, complete: true };
    let mut ops = vec![HOp::Set(1), HOp::Set(2), HOp::Unset, HOp::Next, HOp::Skip];
    for j in 1..=W + 2 {
        ops.push(HOp::Reorg(j));
    }
    // start states: empty, and seeds a short search cannot reach
    let mut starts: Vec<HState> = Vec::new();
    let fresh = HState { obj: H::new(None), cur: 1, model: vec![], top: 0, path: vec![] };
    starts.push(fresh.clone());
    for n in [W, W + 1, W + 2] {
        // n consecutive versions
        let mut s = fresh.clone();
        for i in 0..n {
            s = hstep(&s, &HOp::Set(1 + (i % 2)), &mut a).ok().flatten().unwrap();
            s = hstep(&s, &HOp::Next, &mut a).ok().flatten().unwrap();
        }
        s.path = vec![];
        starts.push(s);
    }
    for gap in [W - 1, W, W + 1] {
        // two versions exactly `gap` blocks apart
        let mut s = fresh.clone();
        s = hstep(&s, &HOp::Set(1), &mut a).ok().flatten().unwrap();
        s.cur += gap;
        s = hstep(&s, &HOp::Set(2), &mut a).ok().flatten().unwrap();
        s.path = vec![];
        starts.push(s);
    }
    let mut seen: HashSet<u128> = HashSet::new();
    let key = |s: &HState| h128(&(s.obj.encode_vec(), s.cur, &s.model, s.top));
    let mut frontier: Vec<HState> = Vec::new();
    for s in starts {
        if seen.insert(key(&s)) {
            frontier.push(s);
        }
    }
    a.states = seen.len() as u64;
    for d in 1..=depth {
        let mut next = Vec::new();
        for s in &frontier {
            for op in &ops {
                a.transitions += 1;
                match hstep(s, op, &mut a) {
                    Ok(Some(n)) => {
                        if seen.insert(key(&n)) {
                            next.push(n);
                        }
                    }
                    Ok(None) => {}
                    Err(e) => {
                        let mut p = s.path.clone();
                        p.push(op.clone());
                        a.violation = Some((e, json!({"component": "BlockHistoryCacheData", "start_model": format!("{:?}", s.model), "start_block": s.cur, "ops": format!("{:?}", p)})));
                        a.states = seen.len() as u64;
                        return a;
                    }
                }
            }
            if Instant::now() > deadline || rss_mb() > 20_000 {
                a.complete = false;
                a.states = seen.len() as u64;
                return a;
            }
        }
        a.depth = d;
        a.states = seen.len() as u64;
        frontier = next;
    }
    a
}

// ------------------------------------------------------------------------------------------------
// (b) BlockCachedDatabase / BlockDatabase on RocksDB
// ------------------------------------------------------------------------------------------------

type Cdb = BlockCachedDatabase<U64ED, U64ED, H>;

#[derive(Clone, Debug, PartialEq, Eq, Hash)]
enum DOp {
    Set(u64, u64),
    Unset(u64),
    Next,
    Skip,
    Commit,
    Clear,
    Reopen,
    Reorg(u64),
}

const KEYS: [u64; 3] = [10, 20, 30];
const BOUNDS: [u64; 6] = [5, 10, 15, 20, 30, 35];

#[derive(Clone, Default, PartialEq, Eq, Hash)]
struct DModel {
    /// key -> effective writes
    hist: BTreeMap<u64, Vec<(u64, Option<u64>)>>,
    /// block-keyed table
    blocks: BTreeMap<u64, u64>,
    cur: u64,
    max_ever: u64,
}

impl DModel {
    fn latest(&self, k: u64) -> Option<u64> {
        self.hist.get(&k).and_then(|h| model_at(h, u64::MAX))
    }
    fn map(&self) -> BTreeMap<u64, u64> {
        self.hist.keys().filter_map(|k| self.latest(*k).map(|v| (*k, v))).collect()
    }
}

struct DSys {
    dir: std::path::PathBuf,
    cdb: Option<Cdb>,
    bdb: Option<BlockDatabase<U64ED>>,
    model: DModel,
    committed: DModel,
}

impl DSys {
    fn open(dir: &std::path::Path) -> (Cdb, BlockDatabase<U64ED>) {
        (Cdb::new(dir, "t").expect("open"), BlockDatabase::new(dir, "b").expect("open"))
    }
    fn new() -> DSys {
        let dir = fresh_dir();
        let (c, b) = DSys::open(&dir);
        DSys { dir, cdb: Some(c), bdb: Some(b), model: DModel::default(), committed: DModel::default() }
    }
    fn wipe(&mut self) {
        self.cdb.as_mut().unwrap().verif_wipe();
        self.bdb.as_mut().unwrap().verif_wipe();
        self.model = DModel::default();
        self.committed = DModel::default();
    }
    /// Apply one operation; Ok(false) = not applicable in this state
    fn apply(&mut self, op: &DOp) -> Result<bool, String> {
        let next = self.model.cur + 1;
        match op {
            DOp::Set(k, v) => {
                self.cdb.as_mut().unwrap().set(next, &U64ED::from(*k), U64ED::from(*v)).map_err(|e| e.to_string())?;
                // Appendix D: `top` is the largest block number the table was given in any set / unset /
                // commit / reorg — a write for the block under construction counts
                self.model.max_ever = self.model.max_ever.max(next);
                let h = self.model.hist.entry(*k).or_default();
                if model_at(h, u64::MAX) != Some(*v) {
                    h.push((next, Some(*v)));
                }
            }
            DOp::Unset(k) => {
                self.cdb.as_mut().unwrap().unset(next, &U64ED::from(*k)).map_err(|e| e.to_string())?;
                self.model.max_ever = self.model.max_ever.max(next);
                let h = self.model.hist.entry(*k).or_default();
                if model_at(h, u64::MAX).is_some() {
                    h.push((next, None));
                }
            }
            DOp::Next | DOp::Skip => {
                let n = if *op == DOp::Next { 1 } else { W - 1 };
                for _ in 0..n {
                    let b = self.model.cur + 1;
                    self.bdb.as_mut().unwrap().set(b, U64ED::from(b * 7));
                    self.model.blocks.insert(b, b * 7);
                    self.model.cur = b;
                    self.model.max_ever = self.model.max_ever.max(b);
                }
            }
            DOp::Commit => {
                let nb = self.model.cur + 1;
                self.bdb.as_mut().unwrap().commit().map_err(|e| e.to_string())?;
                self.cdb.as_mut().unwrap().commit(nb).map_err(|e| e.to_string())?;
                self.bdb.as_mut().unwrap().clear_cache();
                self.committed = self.model.clone();
            }
            DOp::Clear => {
                self.cdb.as_mut().unwrap().clear_cache();
                self.bdb.as_mut().unwrap().clear_cache();
                let max = self.model.max_ever;
                self.model = self.committed.clone();
                // the highest block ever seen is remembered outside these tables (global config)
                self.model.max_ever = max.max(self.model.max_ever);
            }
            DOp::Reopen => {
                self.cdb = None;
                self.bdb = None;
                let (c, b) = DSys::open(&self.dir);
                self.cdb = Some(c);
                self.bdb = Some(b);
                let max = self.model.max_ever;
                self.model = self.committed.clone();
                self.model.max_ever = max.max(self.model.max_ever);
            }
            DOp::Reorg(j) => {
                // caller contract (Appendix D): target within W of the highest block the table was told about
                let Some(target) = self.model.cur.checked_sub(*j) else { return Ok(false) };
                if self.model.max_ever - target > W {
                    return Ok(false);
                }
                let r = catch_unwind(AssertUnwindSafe(|| {
                    let c = self.cdb.as_mut().unwrap().reorg(target).map_err(|e| e.to_string());
                    let b1 = self.bdb.as_mut().unwrap().reorg(target).map_err(|e| e.to_string());
                    let b2 = self.bdb.as_mut().unwrap().commit().map_err(|e| e.to_string());
                    self.bdb.as_mut().unwrap().clear_cache();
                    c.and(b1).and(b2)
                }));
                match r {
                    Ok(Ok(())) => {}
                    Ok(Err(e)) => return Err(format!("reorg to {} failed: {}", target, e)),
                    Err(p) => return Err(format!("reorg to {} (highest block {}) panicked: {}", target, self.model.max_ever, panic_text(&p))),
                }
                for h in self.model.hist.values_mut() {
                    h.retain(|(b, _)| *b <= target);
                }
                self.model.blocks.retain(|b, _| *b <= target);
                self.model.cur = target;
                self.committed = self.model.clone();
            }
        }
        Ok(true)
    }

    fn check(&self) -> Result<(), String> {
        let cdb = self.cdb.as_ref().unwrap();
        let want = self.model.map();
        for k in KEYS.iter().chain([40u64].iter()) {
            let got = cdb.latest(&U64ED::from(*k)).map_err(|e| e.to_string())?.map(|v| v.uint.to::<u64>());
            if got != want.get(k).cloned() {
                return Err(format!("latest({}) = {:?}, model {:?}", k, got, want.get(k)));
            }
        }
        for (i, s) in BOUNDS.iter().enumerate() {
            for e in BOUNDS.iter().skip(i + 1) {
                let got: Vec<(u64, u64)> = cdb.get_range(&U64ED::from(*s), &U64ED::from(*e)).map_err(|e| e.to_string())?.into_iter().map(|(k, v)| (k.uint.to::<u64>(), v.uint.to::<u64>())).collect();
                let exp: Vec<(u64, u64)> = want.range(*s..*e).map(|(k, v)| (*k, *v)).collect();
                if got != exp {
                    return Err(format!("get_range({}, {}) = {:?}, model (complete, in key order) {:?}", s, e, got, exp));
                }
            }
        }
        let mut all: Vec<(u64, u64)> = cdb.all().map_err(|e| e.to_string())?.into_iter().map(|(k, v)| (k.uint.to::<u64>(), v.uint.to::<u64>())).collect();
        all.sort();
        let exp: Vec<(u64, u64)> = want.iter().map(|(k, v)| (*k, *v)).collect();
        if all != exp {
            return Err(format!("all() = {:?}, model {:?}", all, exp));
        }
        let d = cdb.verif_dump("t");
        for (k, hist) in d.cache_db.iter().map(|(k, h)| (k.clone(), h.clone())).chain(d.cache.iter().map(|c| (c.key.clone(), c.history.clone()))) {
            if versions(&hist) as u64 > W + 1 {
                return Err(format!("key {} keeps {} versions", hex::encode(k), versions(&hist)));
            }
        }
        let bdb = self.bdb.as_ref().unwrap();
        for b in 0..=self.model.cur + 2 {
            let got = bdb.get(b).map_err(|e| e.to_string())?.map(|v| v.uint.to::<u64>());
            if got != self.model.blocks.get(&b).cloned() {
                return Err(format!("block table get({}) = {:?}, model {:?}", b, got, self.model.blocks.get(&b)));
            }
        }
        let lk = bdb.last_key().map_err(|e| e.to_string())?;
        if lk != self.model.blocks.keys().last().cloned() {
            return Err(format!("block table last_key = {:?}, model {:?}", lk, self.model.blocks.keys().last()));
        }
        Ok(())
    }

    fn fingerprint(&self) -> u128 {
        let c = self.cdb.as_ref().unwrap().verif_dump("t");
        let b = self.bdb.as_ref().unwrap().verif_dump("b");
        h128(&(c, b, &self.model, &self.committed))
    }
}

impl Drop for DSys {
    fn drop(&mut self) {
        self.cdb = None;
        self.bdb = None;
        let _ = std::fs::remove_dir_all(&self.dir);
    }
}

pub struct PartB {
    pub states: u64,
    pub transitions: u64,
    pub depth: usize,
    pub reorgs: u64,
    pub violation: Option<(String, Value)>,
    pub complete: bool,
    pub sample: Vec<String>,
}

/// One worker: BFS levels are recomputed by every worker; expansion of a level is sharded.
pub fn part_b(depth: usize, deadline: Instant) -> PartB {
    let mut out = PartB { states: 0, transitions: 0, depth: 0, reorgs: 0, violation: None, complete: true, sample: vec![] };
    let mut ops = vec![DOp::Set(10, 1), DOp::Set(10, 2), DOp::Set(20, 1), DOp::Set(30, 2), DOp::Unset(10), DOp::Unset(20), DOp::Next, DOp::Skip, DOp::Commit, DOp::Clear, DOp::Reopen];
    for j in [1u64, 2, W, W + 1] {
        ops.push(DOp::Reorg(j));
    }
    let mut sys = DSys::new();
    let mut seen: HashSet<u128> = HashSet::new();
    let mut frontier: Vec<Vec<DOp>> = vec![vec![]];
    // seeds
    let seed1: Vec<DOp> = vec![DOp::Set(10, 1), DOp::Set(20, 1), DOp::Next, DOp::Set(10, 2), DOp::Skip, DOp::Next, DOp::Commit, DOp::Set(30, 2), DOp::Next];
    frontier.push(seed1);
    // a key that leaves a committed value and returns to it before the next commit
    let seed2: Vec<DOp> = vec![DOp::Set(10, 1), DOp::Next, DOp::Commit, DOp::Set(10, 2), DOp::Next, DOp::Set(10, 1), DOp::Next];
    frontier.push(seed2);
    let seed3: Vec<DOp> = vec![DOp::Set(20, 1), DOp::Next, DOp::Commit, DOp::Unset(20), DOp::Next, DOp::Set(20, 1), DOp::Next];
    frontier.push(seed3);
    for d in 0..=depth {
        let mut next: Vec<Vec<DOp>> = Vec::new();
        for path in &frontier {
            // re-create the state: wipe + replay
            sys.wipe();
            let mut ok = true;
            for (i, op) in path.iter().enumerate() {
                match sys.apply(op) {
                    Ok(true) => {}
                    Ok(false) => {
                        ok = false;
                        break;
                    }
                    Err(e) => {
                        out.violation = Some((e, json!({"component": "BlockCachedDatabase", "ops": format!("{:?}", &path[..=i])})));
                        return out;
                    }
                }
                if matches!(op, DOp::Reorg(_)) && i + 1 == path.len() {
                    out.reorgs += 1;
                }
            }
            if !ok {
                continue;
            }
            out.transitions += 1;
            if let Err(e) = sys.check() {
                out.violation = Some((e, json!({"component": "BlockCachedDatabase / BlockDatabase", "ops": format!("{:?}", path)})));
                return out;
            }
            if !seen.insert(sys.fingerprint()) {
                continue;
            }
            if out.sample.len() < 3 && path.len() >= 3 {
                out.sample.push(format!("{:?}", path));
            }
            if d < depth {
                for op in &ops {
                    let mut p = path.clone();
                    p.push(op.clone());
                    next.push(p);
                }
            }
            if Instant::now() > deadline {
                out.complete = false;
                out.states = seen.len() as u64;
                return out;
            }
        }
        out.depth = d;
        out.states = seen.len() as u64;
        frontier = next;
    }
    out
}

// ------------------------------------------------------------------------------------------------
// (c) crash enumeration at store level (used by C04): for every distinct state the BFS reaches, every
// victim operation (commit, rollback by 1 / 2 blocks) is crashed in front of each of its persistent
// writes; the tables are reopened and rolled back to every eligible block; the result must be the
// reference map truncated at that block.

#[derive(Default, serde::Serialize, serde::Deserialize)]
pub struct PartCrash {
    pub states: u64,
    pub depth: usize,
    pub victims: u64,
    pub crash_points: u64,
    pub cases: u64,
    #[serde(default)]
    pub second_crash_points: u64,
    pub complete: bool,
    pub violation: Option<(String, Value)>,
    pub errors: Vec<String>,
}

impl DSys {
    /// Run `victim` with a crash in front of its persistent write number `i`; reopen; roll back to `r`;
    /// compare with the model truncated at `r`. Ok(false): the failpoint did not fire (i >= writes).
    fn crash_case(&mut self, path: &[DOp], victim: &DOp, i: u64, r: u64, second: Option<u64>) -> Result<bool, String> {
        use brc20_prog::verif as v;
        self.wipe();
        for op in path {
            if !self.apply(op).map_err(|e| format!("prefix: {}", e))? {
                return Err("prefix not applicable".into());
            }
        }
        let pre = self.model.clone();
        v::fp_reset(i, false);
        let res = catch_unwind(AssertUnwindSafe(|| self.apply(victim)));
        v::fp_reset(u64::MAX, false);
        // (the rollback operation catches the panic itself and reports it as an error)
        if matches!(res, Ok(Ok(_))) {
            return Ok(false);
        }
        // the process dies: everything in memory is gone
        self.cdb = None;
        self.bdb = None;
        let (c, b) = DSys::open(&self.dir);
        self.cdb = Some(c);
        self.bdb = Some(b);
        if let Some(j) = second {
            // the recovery rollback itself dies in front of its write number j; reopen once more
            v::fp_reset(j, false);
            let died = catch_unwind(AssertUnwindSafe(|| {
                let c = self.cdb.as_mut().unwrap().reorg(r).map_err(|e| e.to_string());
                let b1 = self.bdb.as_mut().unwrap().reorg(r).map_err(|e| e.to_string());
                let b2 = self.bdb.as_mut().unwrap().commit().map_err(|e| e.to_string());
                c.and(b1).and(b2)
            }));
            v::fp_reset(u64::MAX, false);
            if matches!(died, Ok(Ok(()))) {
                return Ok(false);
            }
            self.cdb = None;
            self.bdb = None;
            let (c, b) = DSys::open(&self.dir);
            self.cdb = Some(c);
            self.bdb = Some(b);
        }
        let rec = catch_unwind(AssertUnwindSafe(|| {
            let c = self.cdb.as_mut().unwrap().reorg(r).map_err(|e| e.to_string());
            let b1 = self.bdb.as_mut().unwrap().reorg(r).map_err(|e| e.to_string());
            let b2 = self.bdb.as_mut().unwrap().commit().map_err(|e| e.to_string());
            self.bdb.as_mut().unwrap().clear_cache();
            c.and(b1).and(b2)
        }));
        match rec {
            Ok(Ok(())) => {}
            Ok(Err(e)) => return Err(format!("recovery rollback to {} failed: {}", r, e)),
            Err(p) => return Err(format!("recovery rollback to {} panicked: {}", r, panic_text(&p))),
        }
        let mut m = pre;
        for h in m.hist.values_mut() {
            h.retain(|(b, _)| *b <= r);
        }
        m.blocks.retain(|b, _| *b <= r);
        m.cur = r;
        self.model = m.clone();
        self.committed = m;
        self.check().map(|_| true)
    }
}

pub fn part_crash(depth: usize, second_depth: usize, shard: u64, nshards: u64, deadline: Instant) -> PartCrash {
    use brc20_prog::verif as v;
    let mut out = PartCrash { complete: true, ..Default::default() };
    // W + 1 blocks at once: a key's next write then finds its previous version older than the window
    let ops = vec![DOp::Set(10, 1), DOp::Set(10, 2), DOp::Unset(10), DOp::Set(20, 1), DOp::Next, DOp::Skip, DOp::Commit, DOp::Reorg(1)];
    let victims = [DOp::Commit, DOp::Reorg(1), DOp::Reorg(2)];
    let mut sys = DSys::new();
    let mut seen: HashSet<u128> = HashSet::new();
    let mut frontier: Vec<Vec<DOp>> = vec![vec![]];
    // seeds: a key rewritten more than W blocks after its previous version, committed / uncommitted
    frontier.push(vec![DOp::Set(10, 1), DOp::Next, DOp::Commit, DOp::Skip, DOp::Next, DOp::Next, DOp::Set(10, 2), DOp::Next]);
    frontier.push(vec![DOp::Set(10, 1), DOp::Next, DOp::Commit, DOp::Skip, DOp::Next, DOp::Next, DOp::Set(10, 2), DOp::Next, DOp::Commit]);
    frontier.push(vec![DOp::Set(10, 1), DOp::Set(20, 1), DOp::Next, DOp::Skip, DOp::Next, DOp::Next, DOp::Unset(10), DOp::Next, DOp::Commit]);
    let mut idx = 0u64;
    for d in 0..=depth {
        let mut next: Vec<Vec<DOp>> = Vec::new();
        for path in &frontier {
            sys.wipe();
            let mut ok = true;
            for op in path.iter() {
                match sys.apply(op) {
                    Ok(true) => {}
                    _ => {
                        ok = false;
                        break;
                    }
                }
            }
            if !ok || !seen.insert(sys.fingerprint()) {
                continue;
            }
            idx += 1;
            let committed = sys.committed.cur;
            let (cur, max_ever) = (sys.model.cur, sys.model.max_ever);
            if idx % nshards == shard {
                for victim in &victims {
                    // count the victim's persistent writes
                    sys.wipe();
                    for op in path.iter() {
                        let _ = sys.apply(op);
                    }
                    v::fp_reset(u64::MAX, false);
                    let applicable = matches!(sys.apply(victim), Ok(true));
                    let n = v::fp_count();
                    if !applicable || n == 0 {
                        continue;
                    }
                    out.victims += 1;
                    // eligible rollback targets: committed before the crash, not above the victim's own target,
                    // within W of the highest block the tables were told about
                    let upper = match victim {
                        DOp::Reorg(j) => committed.min(cur.saturating_sub(*j)),
                        _ => committed,
                    };
                    let mut rs: Vec<u64> = vec![upper];
                    if upper > 0 {
                        rs.push(upper - 1);
                    }
                    rs.push(max_ever.saturating_sub(W));
                    rs.retain(|r| *r <= upper && max_ever - *r <= W);
                    rs.sort();
                    rs.dedup();
                    for i in 0..n {
                        out.crash_points += 1;
                        for r in &rs {
                            out.cases += 1;
                            match sys.crash_case(path, victim, i, *r, None) {
                                Ok(true) => {}
                                Ok(false) => out.errors.push(format!("failpoint {} of {} did not fire: {:?} + {:?}", i, n, path, victim)),
                                Err(e) => {
                                    out.violation = Some((format!("store level: crash before write #{} of {} of {:?}, reopened, rolled back to block {}: {}", i, n, victim, r, e), json!({"component": "BlockCachedDatabase / BlockDatabase", "ops": format!("{:?}", path), "victim": format!("{:?}", victim), "crash_before_write": i, "rollback_to": r})));
                                    out.states = seen.len() as u64;
                                    return out;
                                }
                            }
                            // second layer: the recovery rollback dies too (every write of it, until the
                            // failpoint no longer fires), then is repeated
                            if d <= second_depth {
                                for j in 0..200u64 {
                                    match sys.crash_case(path, victim, i, *r, Some(j)) {
                                        Ok(true) => {
                                            out.second_crash_points += 1;
                                            out.cases += 1;
                                        }
                                        Ok(false) => break,
                                        Err(e) => {
                                            out.violation = Some((format!("store level: crash before write #{} of {} of {:?}, reopened, recovery rollback to block {} crashed before its write #{}, reopened, rolled back to {} again: {}", i, n, victim, r, j, r, e), json!({"component": "BlockCachedDatabase / BlockDatabase", "ops": format!("{:?}", path), "victim": format!("{:?}", victim), "crash_before_write": i, "rollback_to": r, "second_crash_before_write": j})));
                                            out.states = seen.len() as u64;
                                            return out;
                                        }
                                    }
                                }
                            }
                        }
                        if Instant::now() > deadline {
                            out.complete = false;
                            out.states = seen.len() as u64;
                            return out;
                        }
                    }
                }
            }
            if d < depth {
                for op in &ops {
                    let mut p = path.clone();
                    p.push(op.clone());
                    next.push(p);
                }
            }
        }
        out.depth = d;
        out.states = seen.len() as u64;
        frontier = next;
    }
    out
}

// ------------------------------------------------------------------------------------------------
// (c) the block-keyed table alone, with arbitrary keys (not only appended ones)
// ------------------------------------------------------------------------------------------------

#[derive(Clone, Debug, PartialEq, Eq, Hash)]
enum BOp {
    Set(u64, u64),
    Commit,
    Discard,
    Reopen,
    Rollback(u64),
}

pub struct PartC {
    pub states: u64,
    pub transitions: u64,
    pub depth: usize,
    pub rollbacks: u64,
    pub violation: Option<(String, Value)>,
    pub complete: bool,
}

/// BFS over (write cache, disk rows) of a real `BlockDatabase<U64ED>`; the model is two ordered maps. Every state is
/// re-created on the real RocksDB-backed table by wipe + replay; point reads of keys 0..=6 and `last_key` are
/// compared after every operation.
pub fn part_c(depth: usize, deadline: Instant) -> PartC {
    type M = (BTreeMap<u64, u64>, BTreeMap<u64, u64>);
    let mut out = PartC { states: 0, transitions: 0, depth: 0, rollbacks: 0, violation: None, complete: true };
    let mut ops: Vec<BOp> = Vec::new();
    for k in [1u64, 2, 3, 5] {
        for v in [1u64, 2] {
            ops.push(BOp::Set(k, v));
        }
    }
    ops.extend([BOp::Commit, BOp::Discard, BOp::Reopen]);
    for b in [0u64, 1, 2, 4] {
        ops.push(BOp::Rollback(b));
    }
    let dir = fresh_dir();
    let mut bdb: Option<BlockDatabase<U64ED>> = Some(BlockDatabase::new(&dir, "c").expect("open"));
    let apply_model = |m: &mut M, op: &BOp| match op {
        BOp::Set(k, v) => {
            m.0.insert(*k, *v);
        }
        BOp::Commit => {
            for (k, v) in m.0.clone() {
                m.1.insert(k, v);
            }
        }
        BOp::Discard | BOp::Reopen => m.0.clear(),
        BOp::Rollback(b) => {
            m.0.retain(|k, _| *k <= *b);
            m.1.retain(|k, _| *k <= *b);
        }
    };
    let mut seen: HashSet<M> = HashSet::new();
    let mut frontier: Vec<(Vec<BOp>, M)> = vec![(vec![], (BTreeMap::new(), BTreeMap::new()))];
    seen.insert(frontier[0].1.clone());
    for d in 1..=depth {
        let mut next = Vec::new();
        for (path, m0) in &frontier {
            for op in &ops {
                if Instant::now() > deadline {
                    out.complete = false;
                    out.states = seen.len() as u64;
                    let _ = std::fs::remove_dir_all(&dir);
                    return out;
                }
                // re-create the state on the real table, then apply the operation
                bdb.as_mut().unwrap().verif_wipe();
                let mut p = path.clone();
                p.push(op.clone());
                let mut res: Result<(), String> = Ok(());
                for o in &p {
                    let r = catch_unwind(AssertUnwindSafe(|| -> Result<(), String> {
                        match o {
                            BOp::Set(k, v) => bdb.as_mut().unwrap().set(*k, U64ED::from(*v)),
                            BOp::Commit => bdb.as_mut().unwrap().commit().map_err(|e| e.to_string())?,
                            BOp::Discard => bdb.as_mut().unwrap().clear_cache(),
                            BOp::Reopen => {
                                bdb = None;
                                bdb = Some(BlockDatabase::new(&dir, "c").map_err(|e| e.to_string())?);
                            }
                            BOp::Rollback(b) => bdb.as_mut().unwrap().reorg(*b).map_err(|e| e.to_string())?,
                        }
                        Ok(())
                    }));
                    match r {
                        Ok(Ok(())) => {}
                        Ok(Err(e)) => res = Err(e),
                        Err(pn) => res = Err(format!("panicked: {}", panic_text(&pn))),
                    }
                    if res.is_err() {
                        break;
                    }
                }
                out.transitions += 1;
                if matches!(op, BOp::Rollback(_)) {
                    out.rollbacks += 1;
                }
                let mut m = m0.clone();
                apply_model(&mut m, op);
                if res.is_ok() {
                    let t = bdb.as_ref().unwrap();
                    for k in 0..=6u64 {
                        let got = t.get(k).map(|v| v.map(|x| x.uint.to::<u64>())).map_err(|e| e.to_string());
                        let want = m.0.get(&k).or(m.1.get(&k)).cloned();
                        if got != Ok(want) {
                            res = Err(format!("point read of key {} = {:?}, a plain map says {:?}", k, got, want));
                            break;
                        }
                    }
                    if res.is_ok() {
                        let got = t.last_key().map_err(|e| e.to_string());
                        let want = m.0.keys().chain(m.1.keys()).max().cloned();
                        if got != Ok(want) {
                            res = Err(format!("last_key = {:?}, a plain map says {:?}", got, want));
                        }
                    }
                }
                if let Err(e) = res {
                    out.violation = Some((format!("block-keyed table: {}", e), json!({"component": "BlockDatabase", "ops": format!("{:?}", p)})));
                    let _ = std::fs::remove_dir_all(&dir);
                    return out;
                }
                if seen.insert(m.clone()) && d < depth {
                    next.push((p, m));
                }
            }
        }
        out.depth = d;
        out.states = seen.len() as u64;
        frontier = next;
        if frontier.is_empty() {
            break;
        }
    }
    drop(bdb);
    let _ = std::fs::remove_dir_all(&dir);
    out
}

pub fn run(tier: &str, seed: u64) -> i32 {
    let t0 = Instant::now();
    let thorough = tier == "thorough";
    let budget = std::time::Duration::from_secs(if thorough { 600 } else { 40 });
    let da = if thorough { 11 } else { 8 };
    let db = if thorough { 6 } else { 4 };
    // part (b) in a thread (its own scratch directory), part (a) here
    let dl = t0 + budget;
    let hb = std::thread::spawn(move || part_b(db, dl));
    let dc = if thorough { 8 } else { 6 };
    let hc = std::thread::spawn(move || part_c(dc, dl));
    let a = part_a(da, dl);
    let b = hb.join().expect("part b");
    let c = hc.join().expect("part c");
    let mut ev = Evidence::new("C13", tier, seed, "model_checking");
    let mut violations = Vec::new();
    if let Some((e, v)) = &a.violation {
        violations.push(("history-cache".to_string(), e.clone(), v.clone()));
    }
    if let Some((e, v)) = &b.violation {
        violations.push(("cached-database".to_string(), e.clone(), v.clone()));
    }
    if let Some((e, v)) = &c.violation {
        violations.push(("block-table".to_string(), e.clone(), v.clone()));
    }
    let mut replay_paths = Vec::new();
    for (k, e, v) in &violations {
        let viol = crate::explore::Violation { property: "C13".into(), kind: k.clone(), scenario: "store".into(), start: "empty".into(), path: vec![v["ops"].as_str().unwrap_or("").to_string()], steps: vec![], detail: format!("{} | {}", e, v) };
        replay_paths.push((crate::evidence::write_replay(&viol), viol));
    }
    ev.coverage = json!({
        "states": a.states + b.states + c.states, "transitions": a.transitions + b.transitions + c.transitions,
        // every state of part (b) is re-created on the real RocksDB-backed component by wipe + replay of its operation list
        "traces_validated_against_impl": b.transitions,
        "samples": [json!({"part": "a", "ops": "Set(1) Set(2) Unset Next Skip(W-1) Reorg(1..W+2; on the live object and on decode(encode(object))) from 7 start states"}), json!({"part": "b", "paths": b.sample})],
        "part_a": {"component": "BlockHistoryCacheData<U64ED> (the real object, BFS over (encoded bytes, block, model))", "states": a.states, "transitions": a.transitions, "depth_completed": a.depth, "depth_bound": da, "complete": a.complete,
                   "reorgs_within_window_checked": a.reorg_within, "deeper_reorgs_loud": a.reorg_deeper_loud, "deeper_reorgs_right": a.reorg_deeper_right, "max_versions_seen": a.max_versions},
        "part_b": {"component": "BlockCachedDatabase<U64ED,U64ED> + BlockDatabase<U64ED> on RocksDB", "states": b.states, "paths_executed": b.transitions, "depth_completed": b.depth, "depth_bound": db, "complete": b.complete, "reorgs": b.reorgs,
                   "checked_in_every_state": "latest for 4 keys, get_range for 15 (start,end) pairs (complete, ordered), all(), <= W+1 versions, block table get / last_key"},
        "part_c": {"component": "BlockDatabase<U64ED> on RocksDB alone, arbitrary keys", "ops": "Set(k in {1,2,3,5}, v in {1,2}) Commit Discard Reopen Rollback(0,1,2,4)", "states": c.states, "paths_executed": c.transitions, "depth_completed": c.depth, "depth_bound": dc, "complete": c.complete, "rollbacks": c.rollbacks,
                   "checked_after_every_operation": "point reads of keys 0..=6 and last_key against two ordered maps (write cache, disk)"},
        "evaluations": a.transitions + b.transitions + c.transitions, "distinct_nontrivial": a.states + b.states + c.states,
        "rule": "explicit-state search; a state is distinct by (implementation bytes / database rows, current block, reference model)",
        "exhaustive_within_bounds": a.complete && b.complete && c.complete,
    });
    ev.assumptions = vec!["Appendix D caller contract: a table is only rolled back to blocks within W of the highest block it has seen".into(), "RocksDB trusted".into()];
    ev.violations = violations.len() as i64;
    ev.wall_s = t0.elapsed().as_secs_f64();
    ev.write();
    println!("C13 {}: part a states={} transitions={} depth={} (within-window reorgs {}, deeper loud {}, deeper right {}, max versions {}); part b states={} paths={} depth={} reorgs={}; part c states={} paths={} depth={}; wall={:.1}s", tier, a.states, a.transitions, a.depth, a.reorg_within, a.reorg_deeper_loud, a.reorg_deeper_right, a.max_versions, b.states, b.transitions, b.depth, b.reorgs, c.states, c.transitions, c.depth, ev.wall_s);
    crate::inst::cleanup_scratch();
    if !violations.is_empty() {
        for (p, v) in &replay_paths {
            println!("VIOLATION property=C13 replay={}", p);
            println!("  {}", crate::explore::trunc(&v.detail, 1500));
        }
        return 1;
    }
    if a.reorg_within == 0 || a.reorg_deeper_loud == 0 || b.reorgs == 0 {
        eprintln!("MACHINERY-ERROR: vacuous exploration (no reorg exercised)");
        return 3;
    }
    0
}
