mod asm;
mod evidence;
mod explore;
mod hist;
mod inst;
mod obs;
mod props;
mod requests;
mod sign;
mod util;
mod wire;
mod world;

use hist::{ParentCfg, Scenario, WorkerArgs};

fn hist_scenarios(id: &str, tier: &str) -> Option<(Vec<Scenario>, Option<hist::OracleFactory>)> {
    match id {
        "C01" => Some((props::c01::scenarios(tier), None)),
        "C02" => Some((props::c02::scenarios(tier), None)),
        "C03" => Some((props::c03::scenarios(tier), None)),
        "C05" => Some((props::c05::scenarios(tier), None)),
        "C06" => Some((props::c06::scenarios(tier), Some(props::c06::oracle_factory()))),
        "C07" => Some((props::c07::scenarios(tier), Some(props::c07::oracle_factory()))),
        "C08" => Some((props::c08::scenarios(tier), Some(props::c08::oracle_factory()))),
        "C18" => Some((props::c18::scenarios(tier), Some(props::c18::oracle_factory()))),
        "C19" => Some((props::c19::scenarios(tier), Some(props::c19::oracle_factory()))),
        "C10" => Some((props::c10::scenarios(tier), Some(props::c10::oracle_factory()))),
        "C09H" => Some((props::c09::history_scenarios(tier), None)),
        _ => None,
    }
}

/// Properties decided by engines other than the history explorer.
fn other_check(id: &str, tier: &str, seed: u64) -> Option<i32> {
    match id {
        "C13" => Some(props::c13::run(tier, seed)),
        "C14" => Some(props::c14::run(tier, seed)),
        "C15" => Some(props::c15::run(tier, seed)),
        "C04" => Some(props::c04::run(tier, seed)),
        "C09" => Some(props::c09::run(tier, seed)),
        "C11" => Some(props::c11::run(tier, seed)),
        "C12" => Some(props::c12::run(tier, seed)),
        "C20" => Some(props::c20::run(tier, seed)),
        "C16" | "C17" => Some(props::c16::run(id, tier, seed)),
        _ => None,
    }
}

fn usage() -> ! {
    eprintln!("usage: vmc check <ID> <quick|thorough> | vmc worker ... | vmc replay <file>");
    std::process::exit(2)
}

fn main() {
    // a panicking handler is an observation, not noise: keep the default hook quiet
    std::panic::set_hook(Box::new(|_| {}));
    let args: Vec<String> = std::env::args().collect();
    if args.len() < 2 {
        usage();
    }
    let seed: u64 = std::env::var("VERIF_SEED").ok().and_then(|s| s.parse().ok()).unwrap_or(1);
    match args[1].as_str() {
        "check" => {
            if args.len() < 4 {
                usage();
            }
            let (id, tier) = (args[2].as_str(), args[3].as_str());
            let code = if let Some(c) = other_check(id, tier, seed) {
                c
            } else if let Some((sc, _)) = hist_scenarios(id, tier) {
                let expected: Vec<(String, usize)> = sc.iter().map(|s| (s.name.clone(), s.bounds.depth)).collect();
                let rule = format!(
                    "every sequence of macro operations over the scenario alphabets within the depth / deviation bounds, each executed on the real engine through its JSON-RPC dispatch table; scenarios: {}; a path is non-trivial when it contains a deviation and was observed; distinct = distinct observation digests",
                    sc.iter().map(|s| format!("{} (depth {}, alphabet {:?})", s.name, s.bounds.depth, s.alphabet.iter().map(|m| m.name.clone()).collect::<Vec<_>>())).collect::<Vec<_>>().join("; ")
                );
                let extra: Option<std::thread::JoinHandle<(serde_json::Value, Vec<explore::Violation>, Vec<String>)>> = if id == "C02" {
                    Some(std::thread::spawn(props::c02::extra_pass))
                } else if id == "C19" {
                    Some(std::thread::spawn(props::c19::boundary_pass))
                } else {
                    None
                };
                let p = ParentCfg {
                    property: id.to_string(),
                    tier: tier.to_string(),
                    level: "model_checking".into(),
                    nworkers: std::env::var("VERIF_WORKERS").ok().and_then(|s| s.parse().ok()).unwrap_or(16),
                    budget_s: std::env::var("VERIF_BUDGET_S").ok().and_then(|s| s.parse().ok()).unwrap_or(if tier == "thorough" { 900.0 } else { 48.0 }),
                    seed,
                    validate_total: if tier == "thorough" { 320 } else { 48 },
                    rule,
                    assumptions: vec![
                        "revm (the EVM interpreter) and RocksDB are trusted".into(),
                        "verif_wipe makes a live instance equivalent to a fresh one; validated every run by re-executing sampled paths on freshly opened instances (traces_validated_against_impl)".into(),
                        "release profile with overflow checks off (the shipped arithmetic), panic=unwind so that a panic is observed".into(),
                    ],
                    extra: vec![],
                    extra_pass: std::cell::RefCell::new(extra),
                    groups: {
                        let mut g: Vec<String> = sc.iter().map(|s| format!("{}/{}", s.network, s.traces)).collect();
                        g.sort();
                        g.dedup();
                        g
                    },
                };
                hist::parent_main(&p, &expected)
            } else {
                eprintln!("unknown property {}", id);
                2
            };
            inst::cleanup_scratch();
            std::process::exit(code);
        }
        "worker" => {
            let id = args[2].as_str();
            let tier = args[3].as_str();
            let a = WorkerArgs { shard: args[4].parse().unwrap(), nshards: args[5].parse().unwrap(), budget_s: args[6].parse().unwrap(), seed: args[7].parse().unwrap(), validate_n: args[8].parse().unwrap() };
            if id == "C16" || id == "C17" {
                props::c16::worker_main(id, tier, a.shard, a.nshards, a.budget_s);
            } else if id == "C11" {
                props::c11::worker_main(tier, a.shard, a.nshards, a.budget_s);
            } else if id == "C09" {
                props::c09::worker_main(tier, a.shard, a.nshards, a.seed, &args);
            } else if id == "C04" {
                props::c04::worker_main(tier, a.shard, a.nshards, a.budget_s);
            } else if let Some((sc, or)) = hist_scenarios(id, tier) {
                let group = args.iter().find_map(|x| x.strip_prefix("group=")).unwrap_or("").to_string();
                let sc: Vec<Scenario> = sc.into_iter().filter(|s| group.is_empty() || format!("{}/{}", s.network, s.traces) == group).collect();
                hist::worker_main(sc, or, &a);
            } else {
                std::process::exit(2);
            }
        }
        "serve" => wire::serve_main(&args[2..]),
        "digest" => props::golden::digest_main(&args[2]),
        "c19-boundary" => props::c19::boundary_main(&args[2]),
        "c02-timeshift" => props::c02::timeshift_main(),
        "forks" => props::golden::forks_main(&args[2]),
        "golden-record" => props::golden::record(),
        "rwlock-probe" => props::c11::rwlock_probe_child(),
        "bench" => {
            inst::set_config("regtest", true);
            let (scs, _) = hist_scenarios("C01", "quick").unwrap();
            let sc = &scs[0];
            let mut r = explore::Runner::new(sc.opts.clone(), &sc.starts[0].0, sc.starts[0].1.clone(), sc.alphabet.clone());
            let path = vec![0usize, 1, 2, 5];
            let n = 200;
            let t = util::now();
            for _ in 0..n { r.subject.wipe(); }
            println!("wipe: {:.3} ms", t.elapsed().as_secs_f64() * 1e3 / n as f64);
            let t = util::now();
            let mut w = None;
            for _ in 0..n { w = Some(r.run_path(&path).world); }
            println!("run_path: {:.3} ms", t.elapsed().as_secs_f64() * 1e3 / n as f64);
            let w = w.unwrap();
            let t = util::now();
            for _ in 0..n { let _ = r.subject.dump(); }
            println!("dump: {:.3} ms", t.elapsed().as_secs_f64() * 1e3 / n as f64);
            let t = util::now();
            for _ in 0..n { let _ = obs::fp(&obs::masked(r.subject.dump())); }
            println!("dump+mask+fp: {:.3} ms", t.elapsed().as_secs_f64() * 1e3 / n as f64);
            let t = util::now();
            let mut len = 0;
            for _ in 0..n { len = obs::obs(&mut r.subject, &w.uni, &obs::ObsCfg::default()).len(); }
            println!("obs: {:.3} ms ({} bytes, {} lines, uni h32={} addrs={} inscs={})", t.elapsed().as_secs_f64() * 1e3 / n as f64, len, obs::obs(&mut r.subject, &w.uni, &obs::ObsCfg::default()).lines().count(), w.uni.h32.len(), w.uni.addrs.len(), w.uni.inscs.len());
            let t = util::now();
            let cfgp = obs::ObsCfg { probes: explore::view_probes(), ..Default::default() };
            for _ in 0..n { len = obs::obs(&mut r.subject, &w.uni, &cfgp).len(); }
            println!("obs with view probes: {:.3} ms ({} bytes)", t.elapsed().as_secs_f64() * 1e3 / n as f64, len);
            let t = util::now();
            for _ in 0..n { let _ = r.check_path(&path, true); }
            println!("check_path: {:.3} ms", t.elapsed().as_secs_f64() * 1e3 / n as f64);
            let t = util::now();
            for _ in 0..20 { r.subject.reopen(); }
            println!("reopen: {:.3} ms", t.elapsed().as_secs_f64() * 1e3 / 20.0);
            let t = util::now();
            for _ in 0..20 { r.subject.call("brc20_mine", serde_json::json!([1, 5])); r.subject.call("brc20_commitToDatabase", serde_json::json!([])); }
            println!("mine+commit: {:.3} ms", t.elapsed().as_secs_f64() * 1e3 / 20.0);
            let t = util::now();
            for _ in 0..20 { r.subject.call("brc20_mine", serde_json::json!([1, 5])); r.subject.call("brc20_commitToDatabase", serde_json::json!([])); r.subject.reopen(); }
            println!("mine+commit+reopen: {:.3} ms", t.elapsed().as_secs_f64() * 1e3 / 20.0);
            let t = util::now();
            for _ in 0..20 { r.subject.wipe(); }
            println!("wipe after commits: {:.3} ms", t.elapsed().as_secs_f64() * 1e3 / 20.0);
            inst::cleanup_scratch();
        }
        "replay" => {
            let text = std::fs::read_to_string(&args[2]).expect("replay file");
            let v: explore::Violation = serde_json::from_str(&text).expect("replay json");
            let mut reproduced = 0;
            if hist_scenarios(&v.property, "quick").is_none() {
                // the replay files of the component / grid engines describe the failing input; it is part of
                // the enumerated grid, so re-running the check reproduces it
                println!("replay file of {}: kind={} case={:?}", v.property, v.kind, v.path);
                println!("  {}", explore::trunc(&v.detail, 3000));
                let code = other_check(&v.property, "quick", seed).unwrap_or(2);
                std::process::exit(code);
            }
            for tier in ["quick", "thorough"] {
                let Some((scs, or)) = hist_scenarios(&v.property, tier) else { break };
                for sc in scs {
                    if sc.opts.scenario != v.scenario {
                        continue;
                    }
                    let Some((sname, setup)) = sc.starts.iter().find(|(n, _)| *n == v.start).cloned() else { continue };
                    let idx: Option<Vec<usize>> = v.path.iter().map(|n| sc.alphabet.iter().position(|m| &m.name == n)).collect();
                    let Some(idx) = idx else { continue };
                    inst::set_config(&sc.network, sc.traces);
                    let mut r = explore::Runner::new(sc.opts.clone(), &sname, setup, sc.alphabet.clone());
                    if let Some(f) = or {
                        r.oracle = f(&sc);
                    }
                    for round in 0..2 {
                        let vs = r.check_path(&idx, true);
                        let hit: Vec<_> = vs.iter().filter(|x| x.kind == v.kind).collect();
                        println!("replay round {} ({} / {}): {} violation(s) of kind {}", round, sc.name, tier, hit.len(), v.kind);
                        if let Some(h) = hit.first() {
                            println!("  {}", explore::trunc(&h.detail, 2000));
                            reproduced += 1;
                        }
                    }
                    inst::cleanup_scratch();
                    if reproduced > 0 {
                        println!("REPRODUCED property={} kind={}", v.property, v.kind);
                        std::process::exit(1);
                    }
                    println!("NOT-REPRODUCED property={} kind={}", v.property, v.kind);
                    std::process::exit(0);
                }
            }
            eprintln!("no scenario matches the replay file");
            std::process::exit(2);
        }
        _ => usage(),
    }
}
