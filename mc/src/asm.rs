//! Tiny EVM assembler and the hand-assembled probe contracts (no solc in the sandbox).
use std::collections::HashMap;

#[derive(Default)]
pub struct Asm {
    pub code: Vec<u8>,
    labels: HashMap<String, usize>,
    fixups: Vec<(usize, String)>,
}

#[allow(dead_code)]
impl Asm {
    pub fn new() -> Self {
        Self::default()
    }
    pub fn op(&mut self, b: u8) -> &mut Self {
        self.code.push(b);
        self
    }
    pub fn ops(&mut self, b: &[u8]) -> &mut Self {
        self.code.extend_from_slice(b);
        self
    }
    /// PUSH of the minimal width (PUSH0 for zero).
    pub fn push(&mut self, v: u64) -> &mut Self {
        if v == 0 {
            return self.op(0x5f);
        }
        let bytes = v.to_be_bytes();
        let i = bytes.iter().position(|b| *b != 0).unwrap();
        self.code.push(0x5f + (8 - i) as u8);
        self.code.extend_from_slice(&bytes[i..]);
        self
    }
    pub fn push_bytes(&mut self, b: &[u8]) -> &mut Self {
        assert!(!b.is_empty() && b.len() <= 32);
        self.code.push(0x5f + b.len() as u8);
        self.code.extend_from_slice(b);
        self
    }
    pub fn label(&mut self, name: &str) -> &mut Self {
        self.labels.insert(name.to_string(), self.code.len());
        self.op(0x5b)
    }
    fn push_label(&mut self, name: &str) -> &mut Self {
        self.code.push(0x61);
        self.fixups.push((self.code.len(), name.to_string()));
        self.code.extend_from_slice(&[0, 0]);
        self
    }
    pub fn jump(&mut self, name: &str) -> &mut Self {
        self.push_label(name).op(0x56)
    }
    pub fn jumpi(&mut self, name: &str) -> &mut Self {
        self.push_label(name).op(0x57)
    }
    /// byte i of call data as a word
    pub fn cd_byte(&mut self, i: u64) -> &mut Self {
        self.push(i).op(0x35).push(248).op(0x1c)
    }
    pub fn finish(mut self) -> Vec<u8> {
        for (pos, name) in &self.fixups {
            let t = *self.labels.get(name).unwrap_or_else(|| panic!("label {}", name));
            self.code[*pos] = (t >> 8) as u8;
            self.code[*pos + 1] = t as u8;
        }
        self.code
    }
}

/// Init code that installs `rt` as runtime code.
pub fn initcode(rt: &[u8]) -> Vec<u8> {
    let len = rt.len() as u16;
    let off = 15u16;
    let mut c = vec![0x61, (len >> 8) as u8, len as u8, 0x61, (off >> 8) as u8, off as u8, 0x60, 0, 0x39, 0x61, (len >> 8) as u8, len as u8, 0x60, 0, 0xf3];
    c.extend_from_slice(rt);
    c
}

pub const CHILD_INIT: [u8; 8] = [0x60, 0x00, 0x5f, 0x53, 0x60, 0x01, 0x5f, 0xf3]; // runtime = [0x00]

/// Probe contract **S**. First call-data byte selects:
///  1 set(slot=b1, val=b2, ntopics=b3, topics=b4..b7): SSTORE then LOGn(data = val) (ntopics > 4: no log)
///  2 create(): CREATE a child whose runtime is `00`; child address stored in slot 2
///  3 die(): SELFDESTRUCT(caller)
///  4 fail(): SSTORE(1, 7) then REVERT
///  5 spin(n = b1..b2): loop n times
///  6 get(slot=b1): return SLOAD(slot)
///  7 boom(): SSTORE(1, 9) then INVALID
///  8 callpre(addr=b1, len=b2, input=b3..): STATICCALL precompile `addr` with input; stores success in slot 3, returns return data
///  9 setmany(n=b1, val=b2): SSTORE(10+i, val) for i < n, and LOG1(topic = val) each
/// 10 setwide(key = bytes 1..33, val = bytes 33..65): SSTORE of a full-width key / value, LOG1(topic = key, data = val)
/// 11 getwide(key = bytes 1..33): return SLOAD(key)
pub fn s_runtime() -> Vec<u8> {
    let mut a = Asm::new();
    a.cd_byte(0);
    for (sel, l) in [(1u64, "set"), (2, "create"), (3, "die"), (4, "fail"), (5, "spin"), (6, "get"), (7, "boom"), (8, "callpre"), (9, "setmany"), (10, "setwide"), (11, "getwide")] {
        a.op(0x80).push(sel).op(0x14).jumpi(l);
    }
    a.op(0x00);
    // set
    a.label("set");
    a.cd_byte(2).cd_byte(1).op(0x55); // SSTORE(key = b1, value = b2)
    a.cd_byte(2).push(0).op(0x52); // mstore(0, val)
    a.cd_byte(3);
    for (n, l) in [(0u64, "log0"), (1, "log1"), (2, "log2"), (3, "log3"), (4, "log4")] {
        a.op(0x80).push(n).op(0x14).jumpi(l);
    }
    a.op(0x00);
    a.label("log0").push(32).push(0).op(0xa0).op(0x00);
    a.label("log1").cd_byte(4).push(32).push(0).op(0xa1).op(0x00);
    a.label("log2").cd_byte(5).cd_byte(4).push(32).push(0).op(0xa2).op(0x00);
    a.label("log3").cd_byte(6).cd_byte(5).cd_byte(4).push(32).push(0).op(0xa3).op(0x00);
    a.label("log4").cd_byte(7).cd_byte(6).cd_byte(5).cd_byte(4).push(32).push(0).op(0xa4).op(0x00);
    // create
    a.label("create");
    a.push_bytes(&CHILD_INIT).push(0).op(0x52);
    a.push(8).push(24).push(0).op(0xf0); // CREATE(value 0, offset 24, size 8)
    a.push(2).op(0x55).op(0x00);
    // die
    a.label("die").op(0x33).op(0xff);
    // fail
    a.label("fail").push(7).push(1).op(0x55).push(0).push(0).op(0xfd);
    // spin
    a.label("spin").push(1).op(0x35).push(240).op(0x1c);
    a.label("spin_loop").op(0x80).op(0x15).jumpi("spin_end").push(1).op(0x90).op(0x03).jump("spin_loop");
    a.label("spin_end").op(0x00);
    // get
    a.label("get").cd_byte(1).op(0x54).push(0).op(0x52).push(32).push(0).op(0xf3);
    // boom
    a.label("boom").push(9).push(1).op(0x55).op(0xfe);
    // callpre: copy calldata[3..3+len] to mem 0, staticcall(gas, addr, 0, len, 0, 0), sstore(3, success), return returndata
    a.label("callpre");
    a.cd_byte(2).push(3).push(0).op(0x37); // calldatacopy(dest 0, off 3, len)
    a.push(0).push(0).cd_byte(2).push(0).cd_byte(1).op(0x5a).op(0xfa); // staticcall(gas, addr, in 0, insz, out 0, outsz 0)
    a.push(3).op(0x55);
    a.op(0x3d).push(0).push(0).op(0x3e); // returndatacopy(0,0,size)
    a.op(0x3d).push(0).op(0xf3);
    // setmany
    a.label("setmany").cd_byte(1); // counter n
    a.label("sm_loop").op(0x80).op(0x15).jumpi("sm_end");
    a.push(1).op(0x90).op(0x03); // n-1
    a.cd_byte(2).op(0x81).push(10).op(0x01).op(0x55); // SSTORE(10 + n, val)
    a.cd_byte(2).push(0).push(0).op(0xa1); // LOG1(0,0,topic = val)
    a.jump("sm_loop");
    a.label("sm_end").op(0x00);
    // setwide
    a.label("setwide");
    a.push(33).op(0x35).push(1).op(0x35).op(0x55); // SSTORE(key = cd[1..33], value = cd[33..65])
    a.push(33).op(0x35).push(0).op(0x52); // mstore(0, val)
    a.push(1).op(0x35).push(32).push(0).op(0xa1).op(0x00); // LOG1(0, 32, key)
    // getwide
    a.label("getwide").push(1).op(0x35).op(0x54).push(0).op(0x52).push(32).push(0).op(0xf3);
    a.finish()
}

pub fn s_initcode() -> Vec<u8> {
    initcode(&s_runtime())
}

/// a storage key and values that do not fit any narrower integer type
pub const WIDE_KEY: [u8; 32] = [0x80, 0, 0, 0, 0, 0, 0, 0, 0, 0, 0, 0, 0, 0, 0, 0, 0x01, 0, 0, 0, 0, 0, 0, 0, 0, 0, 0, 0, 0, 0, 0, 0x02];

pub fn wide_val(v: u8) -> [u8; 32] {
    let mut x = [0xffu8; 32];
    if v == 0 {
        return [0u8; 32];
    }
    x[0] = 0xf0 | (v & 0x0f);
    x[31] = v;
    x
}

/// call data for S.setwide(WIDE_KEY, wide_val(v)); v = 0 clears the slot
pub fn s_setwide(v: u8) -> Vec<u8> {
    let mut d = vec![10u8];
    d.extend_from_slice(&WIDE_KEY);
    d.extend_from_slice(&wide_val(v));
    d
}

/// call data for S.set
pub fn s_set(slot: u8, val: u8, ntopics: u8, topics: [u8; 4]) -> Vec<u8> {
    vec![1, slot, val, ntopics, topics[0], topics[1], topics[2], topics[3]]
}

/// Probe contract **Ctx**: records the execution context into storage slots.
///  0 NUMBER, 1 TIMESTAMP, 2 PREVRANDAO, 3 CHAINID, 4 BASEFEE, 5 GASPRICE, 6 COINBASE, 7 ORIGIN, 8 CALLER,
///  9..12 BLOCKHASH(n-1, n-2, n-256, n-257), 13 success of STATICCALL 0xfa getTxId(), 14 its answer word,
///  15 GASLIMIT, 17 RETURNDATASIZE of that call, 18 BLOCKHASH(n), 19 BLOCKHASH(n+1)
pub fn ctx_runtime() -> Vec<u8> {
    let mut a = Asm::new();
    for (slot, opc) in [(0u64, 0x43u8), (1, 0x42), (2, 0x44), (3, 0x46), (4, 0x48), (5, 0x3a), (6, 0x41), (7, 0x32), (8, 0x33), (15, 0x45)] {
        a.op(opc).push(slot).op(0x55);
    }
    for (slot, k) in [(9u64, 1u64), (10, 2), (11, 256), (12, 257)] {
        a.push(k).op(0x43).op(0x03).op(0x40).push(slot).op(0x55);
    }
    // 18 BLOCKHASH(NUMBER) (the block under construction: zero), 19 BLOCKHASH(NUMBER + 1) (zero)
    a.op(0x43).op(0x40).push(18).op(0x55);
    a.push(1).op(0x43).op(0x01).op(0x40).push(19).op(0x55);
    let sel = &alloy::primitives::keccak256(b"getTxId()")[..4];
    let selv = u32::from_be_bytes([sel[0], sel[1], sel[2], sel[3]]) as u64;
    a.push(selv).push(0).op(0x52);
    a.push(0x20).push(0x20).push(4).push(0x1c).push(0xfa).op(0x5a).op(0xfa);
    a.push(13).op(0x55);
    a.push(0x20).op(0x51).push(14).op(0x55);
    a.op(0x3d).push(17).op(0x55);
    a.op(0x00);
    a.finish()
}

pub fn ctx_initcode() -> Vec<u8> {
    initcode(&ctx_runtime())
}

/// A proxy: forwards its call data to `target` with CALL (value 0, all gas) and stops.
pub fn proxy_runtime(target: &[u8]) -> Vec<u8> {
    let mut rt: Vec<u8> = vec![0x36, 0x5f, 0x5f, 0x37, 0x5f, 0x5f, 0x36, 0x5f, 0x5f, 0x73];
    rt.extend_from_slice(target);
    rt.extend_from_slice(&[0x5a, 0xf1, 0x50, 0x00]);
    rt
}

/// Init code of the **view** probe, run by `eth_call` without `to`: returns what the EVM itself sees through
/// the `revm::Database` implementation (not through the RPC getters): NUMBER, ADDRESS (= create address of
/// the sender at its current nonce), S.get(0..4) by STATICCALL, EXTCODESIZE / EXTCODEHASH / BALANCE of the
/// given accounts, BLOCKHASH(NUMBER - k) for k = 0..=13. Reads no timestamp, randomness or gas.
pub fn view_initcode(s_addr: &[u8], accounts: &[Vec<u8>]) -> Vec<u8> {
    let mut a = Asm::new();
    let mut ptr: u64 = 0;
    a.op(0x43).push(ptr).op(0x52);
    ptr += 32;
    a.op(0x30).push(ptr).op(0x52);
    ptr += 32;
    for slot in 0..4u64 {
        a.push(6).push(0x1000).op(0x53).push(slot).push(0x1001).op(0x53);
        // staticcall(gas, S, in 0x1000, 2, out ptr, 32)
        a.push(32).push(ptr).push(2).push(0x1000).push_bytes(s_addr).op(0x5a).op(0xfa).op(0x50);
        ptr += 32;
    }
    {
        // S.getwide(WIDE_KEY)
        a.push(11).push(0x1000).op(0x53).push_bytes(&WIDE_KEY).push(0x1001).op(0x52);
        a.push(32).push(ptr).push(33).push(0x1000).push_bytes(s_addr).op(0x5a).op(0xfa).op(0x50);
        ptr += 32;
    }
    for acc in accounts {
        a.push_bytes(acc).op(0x3b).push(ptr).op(0x52);
        ptr += 32;
        a.push_bytes(acc).op(0x3f).push(ptr).op(0x52);
        ptr += 32;
        a.push_bytes(acc).op(0x31).push(ptr).op(0x52);
        ptr += 32;
    }
    for k in 0..=13u64 {
        a.push(k).op(0x43).op(0x03).op(0x40).push(ptr).op(0x52);
        ptr += 32;
    }
    a.push(ptr).push(0).op(0xf3);
    a.finish()
}
