//! Signed legacy transactions for brc20_transact.
use alloy::primitives::{Address, Bytes, TxKind, U256};
use alloy_consensus::transaction::{RlpEcdsaDecodableTx, RlpEcdsaEncodableTx};
use alloy_consensus::{SignableTransaction, TxLegacy};
use alloy_signer::SignerSync;
use alloy_signer_local::PrivateKeySigner;

pub fn signer(i: u8) -> PrivateKeySigner {
    PrivateKeySigner::from_slice(&[7u8.wrapping_add(i); 32]).expect("key")
}

pub fn signer_addr(i: u8) -> Address {
    signer(i).address()
}

/// RLP of a signed legacy transaction. `to = None` creates.
pub fn raw_tx(signer_idx: u8, chain_id: u64, nonce: u64, to: Option<Address>, data: &[u8]) -> Vec<u8> {
    let tx = TxLegacy {
        chain_id: Some(chain_id),
        nonce,
        gas_price: 0,
        gas_limit: 0,
        to: match to {
            Some(a) => TxKind::Call(a),
            None => TxKind::Create,
        },
        value: U256::ZERO,
        input: Bytes::from(data.to_vec()),
    };
    let s = signer(signer_idx);
    let sig = s.sign_hash_sync(&tx.signature_hash()).expect("sign");
    let mut buf = Vec::new();
    tx.rlp_encode_signed(&sig, &mut buf);
    buf
}

/// The same without EIP-155 replay protection (no chain id in the signed payload, v = 27 / 28).
pub fn raw_tx_unprotected(signer_idx: u8, nonce: u64, to: Option<Address>, data: &[u8]) -> Vec<u8> {
    let tx = TxLegacy {
        chain_id: None,
        nonce,
        gas_price: 0,
        gas_limit: 0,
        to: match to {
            Some(a) => TxKind::Call(a),
            None => TxKind::Create,
        },
        value: U256::ZERO,
        input: Bytes::from(data.to_vec()),
    };
    let s = signer(signer_idx);
    let sig = s.sign_hash_sync(&tx.signature_hash()).expect("sign");
    let mut buf = Vec::new();
    tx.rlp_encode_signed(&sig, &mut buf);
    buf
}

/// (signer, nonce) of a raw signed legacy transaction, if it decodes.
pub fn decode_raw(raw: &[u8]) -> Option<(Address, u64)> {
    let mut slice: &[u8] = raw;
    let (tx, sig) = TxLegacy::rlp_decode_with_signature(&mut slice).ok()?;
    let hash = alloy::primitives::keccak256(tx.encoded_for_signing());
    let addr = sig.recover_address_from_prehash(&hash).ok()?;
    Some((addr, tx.nonce))
}
