//! History explorer: enumerates every sequence of macro operations within depth / deviation
//! bounds, executes each on the real engine (wipe + replay), and evaluates the oracles.
use crate::inst::{CallOutcome, Inst};
use crate::obs::{self, ObsCfg};
use crate::util::*;
use crate::world::*;
use serde::{Deserialize, Serialize};
use serde_json::{json, Value};
use std::collections::{BTreeMap, HashMap, HashSet};

#[derive(Clone, Debug, PartialEq, Eq, Hash, Serialize, Deserialize)]
pub enum Kind {
    Growth,
    /// deviation class (index into the budget table)
    Dev(usize),
}

#[derive(Clone, Debug, Serialize, Deserialize)]
pub struct Macro {
    pub name: String,
    pub steps: Vec<Step>,
    pub kind: Kind,
}

pub fn mac(name: &str, kind: Kind, steps: Vec<Step>) -> Macro {
    Macro { name: name.to_string(), steps, kind }
}

#[derive(Clone, Debug)]
pub struct Bounds {
    pub depth: usize,
    /// budget per deviation class
    pub dev: Vec<usize>,
    /// total deviations
    pub dev_total: usize,
}

#[derive(Clone, Debug, Serialize, Deserialize)]
pub struct Violation {
    pub property: String,
    pub kind: String,
    pub scenario: String,
    pub start: String,
    pub path: Vec<String>,
    pub steps: Vec<Step>,
    pub detail: String,
}

impl Violation {
    pub fn key(&self) -> String {
        format!("{:016x}", h64(&(self.property.as_str(), self.kind.as_str(), self.scenario.as_str(), self.start.as_str(), &self.path)))
    }
}

#[derive(Clone, Debug, Default, Serialize, Deserialize)]
pub struct Stats {
    pub paths: u64,
    pub transitions: u64,
    pub rpc_calls: u64,
    pub observed: u64,
    pub ref_runs: u64,
    pub validated: u64,
    pub states: Vec<String>,
    pub obs_outcomes: Vec<String>,
    pub counters: BTreeMap<String, u64>,
    pub depth_completed: usize,
    pub complete: bool,
    pub samples: Vec<Value>,
    pub violations: Vec<Violation>,
    /// violations matched by a listed known finding (id, example); they do not stop the search
    #[serde(default)]
    pub known: Vec<(String, Violation)>,
    pub machinery_errors: Vec<String>,
    pub wall_s: f64,
}

impl Stats {
    pub fn bump(&mut self, k: &str) {
        *self.counters.entry(k.to_string()).or_insert(0) += 1;
    }
    pub fn merge(&mut self, o: Stats) {
        self.paths += o.paths;
        self.transitions += o.transitions;
        self.rpc_calls += o.rpc_calls;
        self.observed += o.observed;
        self.ref_runs += o.ref_runs;
        self.validated += o.validated;
        self.states.extend(o.states);
        self.obs_outcomes.extend(o.obs_outcomes);
        for (k, v) in o.counters {
            *self.counters.entry(k).or_insert(0) += v;
        }
        self.samples.extend(o.samples);
        self.violations.extend(o.violations);
        self.known.extend(o.known);
        self.machinery_errors.extend(o.machinery_errors);
        self.wall_s = self.wall_s.max(o.wall_s);
    }
}

/// What is checked on each path.
#[derive(Clone)]
pub struct Opts {
    pub property: String,
    pub scenario: String,
    /// compare with the normal form on the reference instance
    pub nf_compare: bool,
    /// ... also for paths without deviation (twin / replica comparison)
    pub twin_always: bool,
    /// statuses prescribed by the protocol automaton
    pub check_expect: bool,
    /// any call that returns an error leaves the logical state unchanged
    pub err_unchanged: bool,
    /// read steps leave the logical state unchanged
    pub read_unchanged: bool,
    /// issue each list-valued query twice on the same instance
    pub obs_twice: bool,
    /// after the observation commit both instances and require identical database contents
    pub commit_compare: bool,
    pub obs_cfg_slots: Vec<u64>,
    pub probes: Vec<(String, Value)>,
    /// every read method is issued over the universe after every path, only to see that it answers (no comparison)
    pub observe_only: bool,
}

impl Opts {
    pub fn new(property: &str, scenario: &str) -> Opts {
        Opts {
            property: property.into(),
            scenario: scenario.into(),
            nf_compare: true,
            twin_always: false,
            check_expect: true,
            err_unchanged: true,
            read_unchanged: false,
            obs_twice: false,
            commit_compare: false,
            obs_cfg_slots: vec![0, 1, 2, 3],
            probes: view_probes(),
            observe_only: false,
        }
    }
}

/// Simulations issued with every observation (at block boundaries): what contract code sees of the state.
pub fn view_probes() -> Vec<(String, Value)> {
    use alloy::primitives::Address;
    let s: Address = Tgt::s().resolve().unwrap().parse().unwrap();
    let mut accounts: Vec<Vec<u8>> = vec![s.to_vec(), s.create(1).to_vec(), s.create(2).to_vec()];
    accounts.push(CONTROLLER.parse::<Address>().unwrap().to_vec());
    accounts.push(pk_addr(0).to_vec());
    accounts.push(crate::sign::signer_addr(0).to_vec());
    let code = crate::asm::view_initcode(s.as_slice(), &accounts);
    vec![
        ("eth_call".to_string(), json!([{"from": addr_s(pk_addr(0)), "data": hx(&code)}, null])),
        ("eth_call".to_string(), json!([{"from": addr_s(crate::sign::signer_addr(0)), "data": hx(&code)}, "pending"])),
    ]
}

pub type BoundaryOracle<'a> = Box<dyn FnMut(&mut Inst, &World, &[StepOut]) -> Vec<(String, String)> + 'a>;

pub struct Runner<'a> {
    pub subject: Inst,
    pub reference: Inst,
    pub opts: Opts,
    pub setup: Vec<Step>,
    pub start_name: String,
    pub alphabet: Vec<Macro>,
    pub stats: Stats,
    memo: HashMap<u128, (u64, u64, u128)>,
    states: HashSet<u128>,
    outcomes: HashSet<u64>,
    /// property-specific oracle evaluated at every block boundary of the last macro and at the end
    pub oracle: Option<BoundaryOracle<'a>>,
    pub recycle_every: u64,
}

pub struct PathRun {
    pub world: World,
    pub outs: Vec<StepOut>,
    pub violations: Vec<Violation>,
}

impl<'a> Runner<'a> {
    pub fn new(opts: Opts, start_name: &str, setup: Vec<Step>, alphabet: Vec<Macro>) -> Runner<'a> {
        let subject = Inst::fresh();
        let reference = Inst::fresh();
        Runner {
            subject,
            reference,
            opts,
            setup,
            start_name: start_name.to_string(),
            alphabet,
            stats: Stats::default(),
            memo: HashMap::new(),
            states: HashSet::new(),
            outcomes: HashSet::new(),
            oracle: None,
            recycle_every: 400,
        }
    }

    fn viol(&self, kind: &str, path: &[usize], detail: String) -> Violation {
        let mut steps = self.setup.clone();
        for i in path {
            steps.extend(self.alphabet[*i].steps.iter().cloned());
        }
        Violation {
            property: self.opts.property.clone(),
            kind: kind.to_string(),
            scenario: self.opts.scenario.clone(),
            start: self.start_name.clone(),
            path: path.iter().map(|i| self.alphabet[*i].name.clone()).collect(),
            steps,
            detail,
        }
    }

    fn obs_cfg(&self, world: &World) -> ObsCfg {
        ObsCfg { slots: self.opts.obs_cfg_slots.clone(), probes: self.opts.probes.clone(), open_block: world.count() != 0 }
    }

    /// Execute setup + path on the subject; per-step oracles apply to the last macro only
    /// (its prefixes are paths of their own).
    pub fn run_path(&mut self, path: &[usize]) -> PathRun {
        if self.subject.uses > self.recycle_every * 50 {
            self.subject.recreate();
        } else {
            self.subject.wipe();
        }
        let mut world = World::new();
        let mut outs: Vec<StepOut> = Vec::new();
        let mut violations = Vec::new();
        let setup = self.setup.clone();
        for s in &setup {
            let o = world.exec(&mut self.subject, s);
            if o.outcome.is_panic() {
                violations.push(self.viol("panic-in-setup", path, format!("{:?} -> {:?}", o.call, o.outcome.err_msg())));
                return PathRun { world, outs, violations };
            }
        }
        let n = path.len();
        for (pi, mi) in path.iter().enumerate() {
            let last = pi + 1 == n;
            let steps = self.alphabet[*mi].steps.clone();
            for s in &steps {
                let need_before = last && (self.opts.err_unchanged || self.opts.read_unchanged) && !matches!(s, Step::Restart);
                let before = if need_before { Some(obs::masked(self.subject.dump())) } else { None };
                let o = world.exec(&mut self.subject, s);
                self.stats.transitions += 1;
                if o.outcome.is_panic() {
                    violations.push(self.viol("panic", path, format!("step {:?} call {} {} panicked: {}", s, o.call.method, o.call.params, o.outcome.err_msg().unwrap_or_default())));
                    outs.push(o);
                    return PathRun { world, outs, violations };
                }
                if last {
                    if self.opts.check_expect && o.call.method != "<skip>" {
                        match (&o.expect, o.outcome.is_ok()) {
                            (Expect::MustReject, true) => violations.push(self.viol("accepted-but-must-reject", path, format!("step {:?}: {} {} returned {}", s, o.call.method, o.call.params, canon(&o.outcome.to_value())))),
                            (Expect::MustAccept, false) => violations.push(self.viol("rejected-but-must-accept", path, format!("step {:?}: {} {} returned {}", s, o.call.method, o.call.params, canon(&o.outcome.to_value())))),
                            _ => {}
                        }
                        match &o.expect {
                            Expect::MustReject => self.stats.bump("expect.must_reject"),
                            Expect::MustAccept => self.stats.bump("expect.must_accept"),
                            Expect::Any => {}
                        }
                    }
                    if let Step::Read { method, .. } = s {
                        if o.call.method != "<skip>" {
                            let k = format!("read.{}.{}", method, if o.outcome.is_ok() { "ok" } else { "err" });
                            self.stats.bump(&k);
                        }
                    }
                    if let Some(before) = &before {
                        let is_read = matches!(s, Step::Read { .. });
                        let env_ok = o.outcome.err_msg().map(|m| m.starts_with("Bitcoin RPC status check failed")).unwrap_or(false);
                        if o.call.method == "<skip>" {
                        } else if (self.opts.err_unchanged && o.outcome.is_err() && !env_ok && !is_read) || (self.opts.read_unchanged && is_read) {
                            let after = obs::masked(self.subject.dump());
                            if obs::lfp(before) != obs::lfp(&after) {
                                let kind = if is_read { "read-changed-state" } else { "error-changed-state" };
                                violations.push(self.viol(kind, path, format!("step {:?}: {} {} returned {} and changed: {}", s, o.call.method, o.call.params, canon(&o.outcome.to_value()), obs::logical_diff(before, &after))));
                            }
                            self.stats.bump(if is_read { "checked.read_unchanged" } else { "checked.err_unchanged" });
                        }
                    }
                    {
                        // property-specific oracle after every step of the last macro (oracles that need a
                        // block boundary check `world.count()` themselves)
                        if let Some(mut or) = self.oracle.take() {
                            let mut tmp = outs.clone();
                            tmp.push(o.clone());
                            self.stats.bump("oracle.evaluations");
                            for (k, d) in or(&mut self.subject, &world, &tmp) {
                                if let Some(note) = k.strip_prefix("note:") {
                                    // vacuity counters reported by the oracle, not violations
                                    self.stats.bump(&format!("oracle.{}", note));
                                    continue;
                                }
                                let v = Violation { kind: k, detail: d, ..self.viol("", path, String::new()) };
                                violations.push(v);
                            }
                            self.oracle = Some(or);
                        }
                    }
                }
                outs.push(o);
            }
        }
        PathRun { world, outs, violations }
    }

    /// Replay the normal form on the reference instance; returns (hash of call outcomes, hash of obs, texts)
    fn run_reference(&mut self, world: &World, want_text: bool) -> (Vec<String>, String, bool, u128) {
        if self.reference.uses > self.recycle_every * 50 {
            self.reference.recreate();
        } else {
            self.reference.wipe();
        }
        self.stats.ref_runs += 1;
        let mut outcomes = Vec::new();
        let mut broke = false;
        for rec in world.nf_calls() {
            let o = self.reference.call(&rec.call.method, rec.call.params.clone());
            if o.is_panic() {
                broke = true;
            }
            outcomes.push(canon(&o.to_value()));
            if broke {
                break;
            }
        }
        let cfg = self.obs_cfg(world);
        let ob = if broke { "REFERENCE PANICKED".to_string() } else { obs::obs(&mut self.reference, &world.uni, &cfg) };
        let _ = want_text;
        let mut cfp = 0u128;
        if self.opts.commit_compare && !broke && world.count() == 0 {
            let r = self.reference.call("brc20_commitToDatabase", json!([]));
            if r.is_ok() {
                cfp = obs::fp(&obs::masked(self.reference.dump()));
            }
        }
        (outcomes, ob, broke, cfp)
    }

    /// All checks for one path.
    pub fn check_path(&mut self, path: &[usize], has_dev: bool) -> Vec<Violation> {
        self.stats.paths += 1;
        let run = self.run_path(path);
        let mut violations = run.violations;
        let world = run.world;
        if self.subject.broken {
            return violations;
        }
        let d = obs::masked(self.subject.dump());
        self.states.insert(obs::fp(&d));
        if world.desync {
            self.stats.bump("desync.not_compared");
        }
        if self.opts.observe_only {
            let cfg = self.obs_cfg(&world);
            let ob = obs::obs(&mut self.subject, &world.uni, &cfg);
            self.stats.observed += 1;
            self.outcomes.insert(h64(&ob));
            for l in ob.lines().filter(|l| l.ends_with("=> PANIC")) {
                violations.push(self.viol("panic", path, format!("a read request issued after this history panicked: {}", trunc(l, 600))));
                break;
            }
            if self.subject.broken {
                self.subject.recreate();
            }
            return violations;
        }
        if self.opts.nf_compare && (has_dev || self.opts.twin_always) && !world.desync {
            let cfg = self.obs_cfg(&world);
            let ob = obs::obs(&mut self.subject, &world.uni, &cfg);
            self.stats.observed += 1;
            if self.opts.obs_twice {
                let ob2 = obs::obs(&mut self.subject, &world.uni, &cfg);
                if ob2 != ob {
                    violations.push(self.viol("same-query-twice-differs", path, first_diff(&ob, &ob2)));
                }
            }
            let obs_hash = h64(&ob);
            self.outcomes.insert(obs_hash);
            let nf: Vec<&Call> = world.nf_calls().iter().map(|r| &r.call).collect();
            let subject_outcomes: Vec<&String> = world.nf_calls().iter().map(|r| &r.outcome).collect();
            let key = h128(&(&nf, &world.uni, world.count()));
            let so_hash = h64(&subject_outcomes);
            let hit = self.memo.get(&key).cloned();
            let (ro_hash, robs_hash, _rcfp) = match hit {
                Some(x) => x,
                None => {
                    let (ro, robs, _, cfp) = self.run_reference(&world, false);
                    let x = (h64(&ro.iter().collect::<Vec<_>>()), h64(&robs), cfp);
                    if self.memo.len() < 2_000_000 {
                        self.memo.insert(key, x);
                    }
                    x
                }
            };
            if ro_hash != so_hash || robs_hash != obs_hash {
                // recompute for the texts
                let (ro, robs, broke, _) = self.run_reference(&world, true);
                if broke {
                    violations.push(self.viol("reference-panicked", path, "the normal form panicked on the reference instance".into()));
                } else {
                    let mut detail = String::new();
                    for (i, (a, b)) in subject_outcomes.iter().zip(ro.iter()).enumerate() {
                        if *a != b {
                            let c = &world.nf_calls()[i].call;
                            detail = format!("result of surviving call #{} {} {} differs: subject {} | fresh replay {}", i, c.method, c.params, a, b);
                            break;
                        }
                    }
                    if detail.is_empty() && robs != ob {
                        // locate the first differing query line
                        for (la, lb) in ob.lines().zip(robs.lines()) {
                            if la != lb {
                                detail = format!("query differs:\n  subject: {}\n  fresh  : {}", trunc(la, 1500), trunc(lb, 1500));
                                break;
                            }
                        }
                    }
                    if !detail.is_empty() {
                        violations.push(self.viol("differs-from-normal-form", path, detail));
                    } else {
                        self.stats.machinery_errors.push(format!("hash mismatch without textual difference on {:?}", path));
                    }
                }
            }
        }
        if self.opts.nf_compare && self.opts.commit_compare && (has_dev || self.opts.twin_always) && world.count() == 0 && !self.subject.broken {
            // "the same database contents after commit": commit the subject and compare the complete representation
            let key = h128(&(&world.nf_calls().iter().map(|r| &r.call).collect::<Vec<_>>(), &world.uni, world.count()));
            if let Some((_, _, rcfp)) = self.memo.get(&key).cloned() {
                let r = self.subject.call("brc20_commitToDatabase", json!([]));
                if r.is_ok() && rcfp != 0 {
                    let sfp = obs::fp(&obs::masked(self.subject.dump()));
                    self.stats.bump("checked.commit_compare");
                    if sfp != rcfp {
                        violations.push(self.viol("database-contents-differ-after-commit", path, "after committing both, the rows of the subject's databases differ from those of the run without the deviations".into()));
                    }
                }
            }
        }
        if self.stats.samples.len() < 3 && (has_dev || self.stats.paths % 97 == 1) {
            self.stats.samples.push(json!({"start": self.start_name, "path": path.iter().map(|i| self.alphabet[*i].name.clone()).collect::<Vec<_>>(), "height": world.h, "nf_calls": world.nf_calls().len()}));
        }
        violations
    }

    /// Re-execute a path on a freshly opened (not wiped) instance and require the same obs + fp.
    pub fn validate_fresh(&mut self, path: &[usize]) -> Result<(), String> {
        let run = self.run_path(path);
        if self.subject.broken {
            return Ok(());
        }
        let cfg = self.obs_cfg(&run.world);
        let ob1 = obs::obs(&mut self.subject, &run.world.uni, &cfg);
        let fp1 = obs::fp(&obs::masked(self.subject.dump()));
        // fresh instance, real open
        let mut fresh = Inst::fresh();
        let mut w2 = World::new();
        let mut steps = self.setup.clone();
        for i in path {
            steps.extend(self.alphabet[*i].steps.iter().cloned());
        }
        for s in &steps {
            let o = w2.exec(&mut fresh, s);
            if o.outcome.is_panic() {
                return Err(format!("fresh replay panicked on {:?}", s));
            }
        }
        let ob2 = obs::obs(&mut fresh, &w2.uni, &cfg);
        let fp2 = obs::fp(&obs::masked(fresh.dump()));
        self.stats.validated += 1;
        if ob1 != ob2 {
            return Err(format!("wipe+replay and fresh-open replay observe differently on {:?}: {}", path, first_diff(&ob1, &ob2)));
        }
        if fp1 != fp2 {
            return Err(format!("wipe+replay and fresh-open replay differ in representation on {:?}", path));
        }
        Ok(())
    }

    pub fn finish(mut self) -> Stats {
        self.stats.states = self.states.iter().map(|x| format!("{:032x}", x)).collect();
        self.stats.obs_outcomes = self.outcomes.iter().map(|x| format!("{:016x}", x)).collect();
        self.stats
    }
}

pub fn trunc(s: &str, n: usize) -> String {
    if s.len() <= n {
        s.to_string()
    } else {
        let mut e = n;
        while !s.is_char_boundary(e) {
            e -= 1;
        }
        format!("{}…[{} bytes]", &s[..e], s.len())
    }
}

/// Enumerate all paths of exactly length `len` within the budgets; calls `f(path, has_dev)`.
pub fn enumerate(alphabet: &[Macro], b: &Bounds, len: usize, f: &mut dyn FnMut(&[usize], bool) -> bool) -> bool {
    fn rec(alphabet: &[Macro], b: &Bounds, len: usize, path: &mut Vec<usize>, used: &mut Vec<usize>, total: usize, f: &mut dyn FnMut(&[usize], bool) -> bool) -> bool {
        if path.len() == len {
            return f(path, total > 0);
        }
        for (i, m) in alphabet.iter().enumerate() {
            match &m.kind {
                Kind::Growth => {
                    path.push(i);
                    let go = rec(alphabet, b, len, path, used, total, f);
                    path.pop();
                    if !go {
                        return false;
                    }
                }
                Kind::Dev(c) => {
                    if used[*c] < b.dev[*c] && total < b.dev_total {
                        used[*c] += 1;
                        path.push(i);
                        let go = rec(alphabet, b, len, path, used, total + 1, f);
                        path.pop();
                        used[*c] -= 1;
                        if !go {
                            return false;
                        }
                    }
                }
            }
        }
        true
    }
    let mut used = vec![0; b.dev.len()];
    rec(alphabet, b, len, &mut Vec::new(), &mut used, 0, f)
}

pub struct Shard {
    pub index: u64,
    pub count: u64,
    pub chunk: u64,
}

/// Run the exploration of one (start state, alphabet, bounds) on this worker's shard.
/// `resume_from`: paths whose enumeration number is below it were checked by an earlier call (same
/// scenario, start, bounds and shard) and are skipped. Returns the number of the first path that was not
/// checked when the deadline struck, or None when the enumeration was completed.
pub fn explore(runner: &mut Runner, b: &Bounds, shard: &Shard, deadline: std::time::Instant, seed: u64, validate_n: usize, resume_from: u64) -> Option<u64> {
    let alphabet = runner.alphabet.clone();
    let mut counter: u64 = 0;
    let mut stopped_at: Option<u64> = None;
    let mut mine: Vec<Vec<usize>> = Vec::new();
    let mut completed = 0usize;
    let mut timed_out = false;
    // the empty path (start state itself) belongs to shard 0
    if shard.index == 0 && resume_from == 0 {
        let v = runner.check_path(&[], false);
        runner.stats.violations.extend(v);
    }
    for len in 1..=b.depth {
        let mut cb = |path: &[usize], has_dev: bool| -> bool {
            let c = counter;
            counter += 1;
            if (c / shard.chunk) % shard.count != shard.index || c < resume_from {
                return true;
            }
            if std::time::Instant::now() > deadline || rss_mb() > 6000 {
                stopped_at = Some(c);
                return false;
            }
            let v = runner.check_path(path, has_dev);
            if !v.is_empty() {
                let (new, known) = crate::evidence::triage(&runner.opts.property, v);
                runner.stats.violations.extend(new);
                for (id, kv) in known {
                    *runner.stats.counters.entry(format!("known.{}", id.split(':').next().unwrap_or(""))).or_insert(0) += 1;
                    if runner.stats.known.iter().filter(|(i, _)| *i == id).count() < 2 {
                        runner.stats.known.push((id, kv));
                    }
                }
            }
            if mine.len() < 50_000 && (has_dev || c % 7 == 0) {
                mine.push(path.to_vec());
            }
            // stop early once many violations were collected
            if runner.stats.violations.len() >= 40 {
                stopped_at = Some(u64::MAX);
                return false;
            }
            true
        };
        let go = enumerate(&alphabet, b, len, &mut cb);
        if !go {
            timed_out = true;
            break;
        }
        completed = len;
    }
    runner.stats.depth_completed = completed;
    runner.stats.complete = !timed_out;
    let _ = &stopped_at;
    // conformance of wipe+replay with a real fresh open
    if !mine.is_empty() && validate_n > 0 {
        let mut x = seed.wrapping_mul(6364136223846793005).wrapping_add(1442695040888963407 + shard.index);
        for _ in 0..validate_n {
            x ^= x << 13;
            x ^= x >> 7;
            x ^= x << 17;
            let p = mine[(x % mine.len() as u64) as usize].clone();
            if let Err(e) = runner.validate_fresh(&p) {
                runner.stats.machinery_errors.push(e);
            }
        }
    }
    if timed_out { Some(stopped_at.unwrap_or(u64::MAX)) } else { None }
}

/// Greedy shrinking: remove macros while a violation of the same kind persists.
pub fn shrink(runner: &mut Runner, path: &[usize], kind: &str, dev_of: &dyn Fn(&[usize]) -> bool) -> Vec<usize> {
    let mut cur = path.to_vec();
    let mut changed = true;
    while changed {
        changed = false;
        for i in 0..cur.len() {
            let mut cand = cur.clone();
            cand.remove(i);
            let has_dev = dev_of(&cand);
            let v = runner.check_path(&cand, has_dev);
            if v.iter().any(|x| x.kind == kind) {
                cur = cand;
                changed = true;
                break;
            }
        }
    }
    cur
}

pub fn outcome_brief(o: &CallOutcome) -> String {
    trunc(&canon(&o.to_value()), 300)
}
