//! Transport-level helpers: a real server started with the public `start()` in a child process,
//! and a raw HTTP/1.1 client (so that malformed headers, notifications and batches are expressible).
use serde_json::Value;
use std::io::{BufRead, BufReader, Read, Write};
use std::net::TcpStream;
use std::path::{Path, PathBuf};
use std::time::{Duration, Instant};

pub struct Server {
    pub child: std::process::Child,
    pub addr: String,
    pub dir: PathBuf,
}

pub struct ServerCfg {
    pub dir: PathBuf,
    pub auth: bool,
    pub network: String,
    pub traces: bool,
}

fn free_port() -> u16 {
    let l = std::net::TcpListener::bind("127.0.0.1:0").expect("bind");
    l.local_addr().unwrap().port()
}

pub const USER: &str = "indexer";
pub const PASS: &str = "s3cret";

/// Child side: run the real server until killed.
pub fn serve_main(args: &[String]) {
    let dir = args[0].clone();
    let addr = args[1].clone();
    let auth = args[2] == "1";
    let network = args[3].clone();
    let traces = args[4] == "1";
    let chain_id: u64 = if network == "bitcoin" || network == "mainnet" { 0x4252433230 } else { 0x425243323073 };
    let cfg = brc20_prog::Brc20ProgConfig::new(
        addr.clone(),
        auth,
        if auth { Some(USER.to_string()) } else { None },
        if auth { Some(PASS.to_string()) } else { None },
        traces,
        1_000_000_000,
        "http://127.0.0.1:1".to_string(),
        "x".to_string(),
        "x".to_string(),
        network,
        chain_id,
        false,
        dir,
        10 * 1024 * 1024,
        100 * 1024 * 1024,
        50,
    );
    let rt = tokio::runtime::Builder::new_multi_thread().worker_threads(4).enable_all().build().expect("runtime");
    rt.block_on(async move {
        match brc20_prog::start(cfg).await {
            Ok(handle) => {
                println!("@@READY {}", addr);
                let _ = std::io::stdout().flush();
                handle.stopped().await;
            }
            Err(e) => {
                println!("@@START-FAILED {}", e);
                let _ = std::io::stdout().flush();
            }
        }
    });
}

/// Start a server child; Ok(server) if it came up, Err(message) if start() refused.
pub fn start_server(cfg: &ServerCfg) -> Result<Server, String> {
    let exe = std::env::current_exe().map_err(|e| e.to_string())?;
    let addr = format!("127.0.0.1:{}", free_port());
    let mut child = std::process::Command::new(exe)
        .arg("serve")
        .arg(cfg.dir.to_string_lossy().to_string())
        .arg(&addr)
        .arg(if cfg.auth { "1" } else { "0" })
        .arg(&cfg.network)
        .arg(if cfg.traces { "1" } else { "0" })
        .stdout(std::process::Stdio::piped())
        .stderr(std::process::Stdio::null())
        .spawn()
        .map_err(|e| e.to_string())?;
    let so = child.stdout.take().unwrap();
    let mut rd = BufReader::new(so);
    let mut line = String::new();
    let t = Instant::now();
    loop {
        line.clear();
        match rd.read_line(&mut line) {
            Ok(0) => {
                let _ = child.wait();
                return Err("server child exited without a message (panic at start-up?)".into());
            }
            Ok(_) => {
                if line.starts_with("@@READY") {
                    // keep draining stdout in the background
                    std::thread::spawn(move || {
                        let mut sink = String::new();
                        let _ = rd.read_to_string(&mut sink);
                    });
                    return Ok(Server { child, addr, dir: cfg.dir.clone() });
                }
                if let Some(m) = line.strip_prefix("@@START-FAILED ") {
                    let _ = child.wait();
                    return Err(m.trim().to_string());
                }
            }
            Err(e) => return Err(e.to_string()),
        }
        if t.elapsed() > Duration::from_secs(30) {
            let _ = child.kill();
            let _ = child.wait();
            return Err("server child did not come up within 30 s".into());
        }
    }
}

impl Server {
    pub fn stop(&mut self) {
        let _ = self.child.kill();
        let _ = self.child.wait();
    }
}

impl Drop for Server {
    fn drop(&mut self) {
        self.stop();
    }
}

/// One HTTP request; returns (status line, body).
pub fn http(addr: &str, auth_header: Option<&str>, body: &str) -> Result<(String, String), String> {
    let mut s = TcpStream::connect(addr).map_err(|e| e.to_string())?;
    s.set_read_timeout(Some(Duration::from_secs(20))).ok();
    s.set_nodelay(true).ok();
    let mut req = format!("POST / HTTP/1.1\r\nHost: {}\r\nContent-Type: application/json\r\nContent-Length: {}\r\nConnection: close\r\n", addr, body.len());
    if let Some(a) = auth_header {
        req.push_str(&format!("Authorization: {}\r\n", a));
    }
    req.push_str("\r\n");
    req.push_str(body);
    s.write_all(req.as_bytes()).map_err(|e| e.to_string())?;
    let mut out = Vec::new();
    s.read_to_end(&mut out).map_err(|e| e.to_string())?;
    let text = String::from_utf8_lossy(&out).to_string();
    let status = text.lines().next().unwrap_or("").to_string();
    let (head, body) = text.split_once("\r\n\r\n").unwrap_or((&text, ""));
    // de-chunk if needed
    let body = if head.to_lowercase().contains("transfer-encoding: chunked") { dechunk(body) } else { body.to_string() };
    Ok((status, body))
}

fn dechunk(b: &str) -> String {
    let mut out = String::new();
    let mut rest = b;
    loop {
        let Some((len_line, after)) = rest.split_once("\r\n") else { break };
        let Ok(n) = usize::from_str_radix(len_line.trim(), 16) else { break };
        if n == 0 || after.len() < n {
            break;
        }
        out.push_str(&after[..n]);
        rest = after[n..].trim_start_matches("\r\n");
    }
    out
}

pub fn basic(user: &str, pass: &str) -> String {
    use base64::prelude::BASE64_STANDARD;
    use base64::Engine;
    format!("Basic {}", BASE64_STANDARD.encode(format!("{}:{}", user, pass)))
}

pub fn rpc(addr: &str, auth: Option<&str>, method: &str, params: &Value) -> Value {
    let body = serde_json::json!({"jsonrpc": "2.0", "id": 1, "method": method, "params": params}).to_string();
    match http(addr, auth, &body) {
        Ok((_, b)) => serde_json::from_str(&b).unwrap_or(Value::String(b)),
        Err(e) => serde_json::json!({"transport_error": e}),
    }
}

pub fn remove_dir(p: &Path) {
    let _ = std::fs::remove_dir_all(p);
}
