#!/usr/bin/env python3
"""Regenerates /verif/MANIFEST.json from the table below (one entry per property)."""
import json, subprocess, sys

BUILT = {
    # id: (engine, category, technique, level text, level note, design_ref)
    "C01": ("hist", "model_checking",
            "explicit-state exploration of the real engine: all call sequences within depth/deviation bounds, normal-form differential oracle",
            "Every sequence of block-building, commit and reorg operations over two collision-forcing alphabets (window arithmetic; one key per table) up to the stated depth and deviation bounds is executed on the real engine through its JSON-RPC dispatch table; after every accepted reorg, and after every extension of it, all answers of all read methods over a universe that includes the orphaned keys must equal those of a second real instance fed only the surviving calls; acceptance / refusal of every reorg is checked against the statement (current height, highest block ever finalised, open block), refusals must leave the logical content unchanged.",
            "Bounded: histories longer than the depth bound, more than two storage slots, and contract code other than the hand-assembled probe contract S are not covered. revm and RocksDB are trusted. The wipe-instead-of-reopen shortcut is validated on every run against freshly opened instances.",
            "DESIGN.md §4 C01"),
    "C02": ("hist", "model_checking",
            "explicit-state exploration of the real engine on twin instances (different hash-map seeds); raw byte comparison of every result",
            "Every history over an alphabet of multi-transaction, multi-sender, pool-draining blocks, commit and reorg within the depth bound is executed on two real instances (different directories, different in-memory hash-map seeds; one of them never commits); every call result and the raw response text of every read method over the universe (only the block processing time masked, txpool answers compared as JSON objects) must be identical, and every observation is issued twice on the same instance.",
            "Bounded histories; both instances live in one process of one build: cross-build agreement is reduced to pinned digests (golden file) once recorded. Arrays are never reordered before comparison.",
            "DESIGN.md §4 C02"),
    "C03": ("hist", "model_checking",
            "explicit-state exploration of the real engine: commit / clearCaches / real stop+reopen deviations, normal-form differential oracle",
            "Every history over block-building operations with commits, clearCaches (at boundaries and between two transactions of a block) and real close/reopen of the database at any position within the depth and deviation bounds; the observable state and the result of every surviving call must equal those of a never-committed instance fed the normal form (commit = identity, clear / restart = truncate to the last commit).",
            "Bounded histories; restart is a clean drop of all handles (crashes are C04's subject).",
            "DESIGN.md §4 C03"),
    "C05": ("hist", "model_checking",
            "explicit-state exploration of the real engine with injected out-of-protocol calls; protocol automaton predicts must-reject, logical-state equality on every error",
            "Into every history of single transactions / finalise steps within the depth bound, each call of the statement's menu (wrong tx_idx incl. 2^64-1, other timestamp / hash, existing hash, wrong finalise count, commit / reorg / mine while a block is open, both / neither encoding, mismatching or parentless initialise, undecodable pkscript / raw transaction) is injected at every position including mid-block; calls the statement lists must return an error; every call that returns an error must leave the logical content of all tables, the open block and the pool unchanged; the history with rejected calls removed must observe identically.",
            "Bounded histories and a finite menu of malformed parameters. One known finding (parked transaction ignores tx_idx, pinned by the repository's own test) is reported as KNOWN-FINDING.",
            "DESIGN.md §4 C05"),
    "C10": ("hist", "model_checking",
            "explicit-state exploration of the real engine with read requests interleaved; logical-state equality around each read, database rows compared after commit",
            "Every history of single transactions / finalise steps within the depth bound with read requests inserted at every position (executing ones — eth_call, eth_callMany with state carry-over and failing middle calls, eth_estimateGas(Many), brc20_balance — at block boundaries; non-executing queries also mid-block): the logical state before and after each read is equal, the final observation equals that of the read-free history, and after committing both instances their complete database rows are identical.",
            "Bounded histories; simulated code is the probe contract S (storage writes, creation, self-destruct, revert, invalid opcode).",
            "DESIGN.md §4 C10"),
    "C06": ("hist", "model_checking",
            "explicit-state exploration of the real engine; chain-coherence invariant recomputed by the harness in every boundary state",
            "In every block-boundary state of every history within the bounds (multi-transaction blocks with failing / reverting / out-of-gas / EVM-invalid transactions, contract-created contracts, pool drains, empty blocks, commit, reorg and regrowth) the harness recomputes with its own code, from the receipts the indexer was handed: height contiguity, parent links, hash<->number inversion, the block's transaction list, tx / receipt / (block,index) / inscription cross references, contiguous log indexes, cumulative gas and block gas, bloom union (alloy Bloom), SHA-256 merkle root (own implementation), RLP-decoded raw block and raw receipts, contract address -> inscription id.",
            "Bounded histories. One known finding (identical EVM-invalid transactions share a hash) is reported as KNOWN-FINDING; lookups of such hashes are not checked further.",
            "DESIGN.md §4 C06"),
    "C07": ("hist", "model_checking",
            "explicit-state exploration of the real engine against a reference ledger folded over the surviving calls",
            "Every history within the bounds over deposits / withdrawals (tickers in several spellings, amounts 0 .. 2^256-1, overflow, over-withdrawal), controller and token-contract transfers, approvals, transferFroms by two pkscripts and a signer, adversarial mint / burn calls by users on the controller and on the token contract, reorg and commit; at every block boundary brc20_balance for every (pkscript, spelling), balanceOf and totalSupply on the token contracts must equal a reference ledger that only successful deposits / withdrawals / transfers update; operations exceeding the balance must fail; user mint / burn must never succeed; supply = sum of holders.",
            "Bounded histories, three holders, two tickers; the instance is initialised with brc20_initialise (documented protocol). Whether a transfer within balance succeeds (allowances) is observed, not predicted.",
            "DESIGN.md §4 C07"),
    "C08": ("hist", "model_checking",
            "explicit-state exploration of the real engine against a reference nonce pool (DESIGN Appendix B) run in lock-step",
            "All arrival orders of signed transactions of two signers (nonces 0..3, P-1, P), duplicates, replacements, other chain id, undecodable RLP, EVM-invalid due transactions, inscription transactions in between, finalise, idle blocks up to the expiry edge (seeds with entries aged P-3 .. P blocks), reorg, clearCaches and commit, within the depth bounds; after every step: receipts per call = transactions appended with consecutive indexes, drains in nonce order with the parked transaction's own nonce, ignored / parked transactions produce no receipt, txpool_content / txpool_contentFrom equal the model's waiting set, eth_getTransactionCount equals the number of executed nonces, an error changes nothing.",
            "Bounded histories. The behaviour of waiting successors after an EVM-invalid due transaction is not prescribed by the statement: the model follows the code there and only the invariants are checked.",
            "DESIGN.md §4 C08, Appendix B"),
    "C18": ("hist", "model_checking",
            "explicit-state exploration of the real engine; in every boundary state the complete finite filter grid is compared with a reference filter",
            "In every block-boundary state of every history within the bounds (blocks of 1-3 transactions emitting 0-4-topic logs from two contracts, empty blocks, commit, reorg) the complete grid address {none, A, B, absent} x topic arrays of length 0..3 (0..4 from the seed state) with each position in {null, t1, t2, [t1,t2]} x 16 ranges (default, single, widths 1..6, beyond head, too wide, reversed) is sent to eth_getLogs and compared, in order, with a 20-line reference filter over the receipts the indexer was handed; ranges wider than 6 blocks must be refused.",
            "Bounded histories and a finite filter grid; null is read as 'no constraint at that position' (the statement's wording); reversed ranges are not prescribed and accepted either way.",
            "DESIGN.md §4 C18"),
    "C19": ("hist", "model_checking",
            "explicit-state exploration of the real engine on three network configurations; context recorded by a hand-assembled probe contract and read back",
            "Every history within the bounds over block parameters (timestamps 0, 2^32, 2^64-1; explicit and server-generated hashes), inscription calls by two senders, signed transactions executed directly and parked-then-drained, deposits / withdrawals, 1 and 255 idle blocks, commit and reorg, on regtest (Prague), signet and mainnet (Cancun at low heights): the probe contract's record of NUMBER, TIMESTAMP, PREVRANDAO, CHAINID, BASEFEE, GASPRICE, COINBASE, ORIGIN, CALLER, BLOCKHASH(n-1, n-2, n-256, n-257) and the answer of the current-txid helper must equal what the harness supplied for that very transaction (for a drained transaction: the draining block's context and its own txid); the helper must not exist before Prague; deposits / withdrawals execute as the indexer address.",
            "Bounded histories. The zero transaction id of deposits / withdrawals is not observable from contract code the harness controls and is not checked.",
            "DESIGN.md §4 C19"),
    "C13": ("store", "model_checking",
            "explicit-state BFS over the real store components (pure history object; RocksDB-backed tables) against a reference versioned map",
            "(a) breadth-first search over (encoded bytes of the real BlockHistoryCacheData, current block, reference model) with set / unset / next block / skip W-1 blocks / reorg 1..W+2 blocks back, from the empty object and from six seeds at the window edges, to the stated depth: latest = model, a reorg within W of the highest block ever written restores the model's value, a deeper one panics or is right, at most W+1 versions, encode/decode identity in every state. (b) breadth-first search over BlockCachedDatabase + BlockDatabase on real RocksDB (states re-created by wipe + replay) with set / unset on three keys, next block, skip, commit, clear, reopen, reorg: in every state latest for 4 keys, get_range for all 15 (start,end) pairs (complete and in key order), all(), version bound, block table get / last_key equal a BTreeMap model.",
            "Depth-bounded (the space does not close: block numbers grow). Caller contract of Appendix D: a table is only rolled back to blocks within W of the highest block it has seen (the engine refuses anything else; C01 checks that).",
            "DESIGN.md §4 C13, Appendix D"),
    "C14": ("store", "exploration",
            "bounded-exhaustive enumeration of per-type value grids (full product of per-field menus) through the real codecs",
            "For every persisted / served type the full product of per-field menus (boundary integers, empty / 1 / 31 / 32 / 33 / 65536-byte strings, None / Some at every optional position, 0..4 topics, traces nested 0..2 deep, blocks with 0..3 transactions; 2-value menus for the wide structs: 8192 transactions, 6144 receipts, 2048 blocks): decode(encode v) = v consuming exactly the bytes produced, also with trailing bytes present; concatenated pairs decode to the pair; for all pairs of keys of every key type used in range scans the order of the encodings equals the order of the values; JSON serialise / deserialise / serialise reproduces the text.",
            "Weakest form of the family: nothing is claimed outside the grid. Constants the module fills in on decode (chain id of the configuration, legacy header fields) are held at those constants.",
            "DESIGN.md §4 C14"),
    "C15": ("store", "exploration",
            "bounded-exhaustive enumeration of payloads through the real encoder / decoder, plus twin-instance comparison of the two submission fields",
            "All byte strings of length <= 2 (thorough; quick: all of length <= 1 and a rotating slice of length 2) and a length grid up to LIMIT+2 in five content classes are packed with the published encoder and decoded with 0..3 '=' appended; raw / nada / zstd payloads of LIMIT-1, LIMIT, LIMIT+1 bytes forced by hand with and without declared frame size, 64 MiB bombs, unknown prefixes 3..255, degenerate and truncated strings: the decoder never panics and never yields more than the limit; 12 payloads x {deploy, call, transact} x padding submitted through the hex field and through the base64 field on twin instances give identical receipts and observations.",
            "A string the published encoder refuses to pack (incompressible, within ~0.1% of the limit) is outside the statement. Nothing is claimed for payloads outside the grid.",
            "DESIGN.md §4 C15"),
    "C04": ("crash", "fault_enumeration",
            "crash-point enumeration on the real write paths: a failpoint in front of every RocksDB put / delete / flush of the victim operation, reopen, recovery by reorg compared with a fresh replay",
            "For every generated history (all sequences up to the stated length over block-building, idle blocks, commit and reorg that contain a successful commit) followed by a victim (commit, reorg 1 / 2 / W blocks back, finalisation of a block) the victim's persistent writes are counted on the real code and a crash (panic in front of the write, every handle dropped, directory reopened) is placed before each write and after the last one; for every eligible recovery height (committed before the crash, not above an attempted reorg target, inside the window) brc20_reorg must succeed and every answer of every read method must equal a fresh replay of the surviving history, also after one more block; a crash inside finalisation must lose only uncommitted work.",
            "Crash model of the statement: process death between two RocksDB calls (the WAL makes exactly the completed writes visible); torn / unsynced writes after power loss are outside the property. Histories bounded in length.",
            "DESIGN.md §4 C04"),
    "C09": ("requests", "exploration",
            "complete enumeration of a finite request / byte-string grid on the real dispatch table in watched worker processes (panic, hang and wedge detection)",
            "For every registered method a valid request and every request with one (thorough: two) parameter deviating over a fixed menu (boundary integers, negative, float, empty / odd / non-hex / megabyte strings, every compression prefix, truncated frames, bombs, null / bool / array / object, missing) in 3 (thorough: 6) engine states; every byte string of length <= 2 as init code, as runtime code, as call data and as input of each custom precompile (quick: all of length <= 1 plus a rotating 1/16 of length 2); ABI grids of the custom precompiles called directly and through a contract; 0xfc / 0xfd with complete override sets (self-referential, coinbase, zero-input, vout out of range, garbage). A case is a violation if the handler panics, if the worker process dies, if there is no answer within the watchdog, or if the liveness round afterwards (read, clearCaches, mine, read) fails.",
            "In-process dispatch (parameter decoding + handler bodies), not the HTTP transport. Bitcoin-RPC-backed paths only with complete overrides. One known finding (brc20_mine with a count >= 2^32-1) is reported as KNOWN-FINDING.",
            "DESIGN.md §4 C09"),
    "C11": ("lock", "model_checking",
            "lock traces extracted from the real handlers (hook H3); explicit-state BFS over the product of traces under writer-preferring RwLock semantics; controlled scheduler replays every bounded-preemption schedule on the real handlers",
            "(1) every registered handler is run on the real engine in 6 state classes and its sequence of lock acquisitions / releases on the engine's locks and the global configuration is recorded; (2) the product of every pair of distinct traces, and of every reader/reader/writer and reader/writer/writer triple, is searched exhaustively for a state in which no thread can move, under the semantics 'a read is granted iff no writer holds and no writer is queued' (tested against std's RwLock on every run); no trace may re-acquire a lock that some handler writes, and all traces must respect one acquisition order (which generalises the result to any number of threads); (3) a controlled scheduler runs the real handlers of every pair involving a writer through every schedule with at most 1 (thorough: 2) preemptions at lock-acquisition points, detecting deadlock with its own lock model, and requires that nothing panics and that the engine still serves afterwards; the observed lock events are compared with the extracted traces (conformance count).",
            "Scheduling points are the lock acquisitions of SharedData (data races on other memory are outside the property). Waits with a time-out count as always eventually enabled. Three-thread combinations are checked on compressed traces (adjacent repetitions of balanced segments removed).",
            "DESIGN.md §4 C11, Appendix C"),
    "C12": ("wire", "exploration",
            "complete enumeration of the finite space method x request form x credential x configuration over real HTTP against a server started with the public start()",
            "Every registered method (taken from the dispatch table and cross-checked with the #[method] attributes in the source) x {call, notification, first / middle / last element of a batch among permitted calls, batch of only this method} x {no header, wrong user, wrong password, malformed header, not base64, lower-case scheme, bearer, correct} on a real server with authentication enabled, and every method without credentials on a server with authentication disabled; a request that must be refused must answer 401 Unauthorized (per element in a batch, permitted neighbours still served) and leave the state digest unchanged; a permitted request must not be refused; any method whose permitted execution changes the digest must be on the protected list.",
            "The digest is made of public reads. jsonrpsee never executes notifications (also authorised ones): both outcomes are accepted for those.",
            "DESIGN.md §4 C12"),
    "C20": ("wire", "exploration",
            "complete enumeration of (creating configuration, reopening configuration) pairs through the real start-up path in child processes",
            "All 196 ordered pairs over 7 network names x trace on/off through validate_config_database; through the public start() in child processes every configuration restarted as itself on a populated directory (must come up and serve the same state) and all 182 mismatching pairs (must refuse to start); each of the four recorded keys missing / altered / empty; foreign non-empty directories (stray file, empty config database, table directories only).",
            "Network names are compared as recorded. Protocol / database version mismatches are produced by altering the recorded rows (the constants cannot be changed without editing the crate).",
            "DESIGN.md §4 C20"),
}

NOT_BUILT_REASON = "check not built yet in this round (planned in DESIGN.md §4); nothing is claimed for it"

def main():
    props = [json.loads(l)["id"] for l in open("/verif/properties.jsonl")]
    hooks = subprocess.run(["git", "-C", "/repo", "log", "--format=%h %s"], capture_output=True, text=True).stdout.splitlines()
    hook_commits = [l.split()[0] for l in hooks if l.split(" ", 1)[1].startswith("verif hooks")]
    checks = []
    for pid in props:
        if pid not in BUILT:
            continue
        engine, cat, tech, text, note, ref = BUILT[pid]
        checks.append({
            "property_id": pid,
            "quick_cmd": f"./check {pid} quick",
            "thorough_cmd": f"./check {pid} thorough",
            "evidence_file": f"/verif/evidence/{pid}.json",
            "replay_cmd_template": "./check replay {path}",
            "engine": engine,
            "level_claimed": {"category": cat, "text": text, "design_ref": ref},
            "level_note": note,
            "technique": tech,
        })
    m = {
        "version": 1,
        "setup_cmd": "cd /verif/mc && CARGO_NET_OFFLINE=true cargo build --release --offline",
        "hooks": {
            "guard": "--cfg brc20_prog_verif",
            "enable": "RUSTFLAGS --cfg brc20_prog_verif via /verif/mc/.cargo/config.toml; the harness crate /verif/mc has a path dependency on /repo, so every check rebuilds /repo's working tree with hooks on",
            "baseline_off_cmd": "cd /repo && cargo nextest run --workspace --no-fail-fast --test-threads 8 --offline || cargo test --workspace --no-fail-fast --offline",
            "source_commits": hook_commits,
            "add_only": True,
        },
        "engines": [
            {"name": "hist", "path": "/verif/mc/src/explore.rs", "serves_properties": [p for p in props if p in BUILT and BUILT[p][0] == "hist"],
             "kind_free_text": "history explorer: exhaustive enumeration of call sequences on the real engine (wipe + replay), protocol automaton + normal-form differential oracle"},
            {"name": "crash", "path": "/verif/mc/src/props/c04.rs", "serves_properties": [p for p in props if p in BUILT and BUILT[p][0] == "crash"],
             "kind_free_text": "crash-point enumerator over the persistent writes of commit / reorg / finalise (failpoints of hook H2), real close + reopen"},
            {"name": "requests", "path": "/verif/mc/src/props/c09.rs", "serves_properties": [p for p in props if p in BUILT and BUILT[p][0] == "requests"],
             "kind_free_text": "request-grid enumerator: worker processes watched by the parent (hang = no progress), panic capture, liveness rounds"},
            {"name": "lock", "path": "/verif/mc/src/props/c11.rs", "serves_properties": [p for p in props if p in BUILT and BUILT[p][0] == "lock"],
             "kind_free_text": "lock-trace extraction + product BFS under writer-preferring semantics + controlled scheduler over the real handlers"},
            {"name": "wire", "path": "/verif/mc/src/wire.rs", "serves_properties": [p for p in props if p in BUILT and BUILT[p][0] == "wire"],
             "kind_free_text": "transport-level enumeration: real server via start() in a child process, raw HTTP/1.1 client"},
            {"name": "store", "path": "/verif/mc/src/props/c13.rs", "serves_properties": [p for p in props if p in BUILT and BUILT[p][0] == "store"],
             "kind_free_text": "component explorer: BFS over the real store components against reference models; complete value grids through the real codecs"},
        ],
        "checks": checks,
        "not_applicable": [{"property_id": p, "reason": NOT_BUILT_REASON} for p in props if p not in BUILT],
        "notes": "exit codes of ./check: 0 held, 1 VIOLATION, 2 build failure, 3 machinery error (nondeterminism, vacuous oracle, worker crash). Known findings: /verif/known_findings.json.",
    }
    json.dump(m, open("/verif/MANIFEST.json", "w"), indent=1)
    print("wrote MANIFEST.json with", len(checks), "checks")

if __name__ == "__main__":
    main()
