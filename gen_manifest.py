#!/usr/bin/env python3
"""Regenerates /verif/MANIFEST.json from the table below (one entry per property)."""
import json, subprocess, sys

BUILT = {
    # id: (engine, category, technique, level text, level note, design_ref)
    "C01": ("hist", "model_checking",
            "explicit-state exploration of the real engine: all call sequences within depth/deviation bounds, normal-form differential oracle",
            "Every sequence of block-building, commit and reorg operations over two collision-forcing alphabets (window arithmetic; one key per table) up to the stated depth and deviation bounds is executed on the real engine through its JSON-RPC dispatch table; after every accepted reorg, and after every extension of it, all answers of all read methods over a universe that includes the orphaned keys must equal those of a second real instance fed only the surviving calls; acceptance / refusal of every reorg is checked against the statement (current height, highest block ever finalised, open block), refusals must leave the logical content unchanged.",
            "Bounded: histories longer than the depth bound, more than two storage slots, and contract code other than the hand-assembled probe contract S are not covered. revm and RocksDB are trusted. The wipe-instead-of-reopen shortcut is validated on every run against freshly opened instances.",
            "DESIGN.md §4 C01"),
}

NOT_BUILT_REASON = "check not built yet in this round (planned in DESIGN.md §4); nothing is claimed for it"

def main():
    props = [json.loads(l)["id"] for l in open("/verif/properties.jsonl")]
    hooks = subprocess.run(["git", "-C", "/repo", "log", "--format=%h %s"], capture_output=True, text=True).stdout.splitlines()
    hook_commits = [l.split()[0] for l in hooks if l.split(" ", 1)[1].startswith("verif hooks")]
    checks = []
    for pid in props:
        if pid not in BUILT:
            continue
        engine, cat, tech, text, note, ref = BUILT[pid]
        checks.append({
            "property_id": pid,
            "quick_cmd": f"./check {pid} quick",
            "thorough_cmd": f"./check {pid} thorough",
            "evidence_file": f"/verif/evidence/{pid}.json",
            "replay_cmd_template": "./check replay {path}",
            "engine": engine,
            "level_claimed": {"category": cat, "text": text, "design_ref": ref},
            "level_note": note,
            "technique": tech,
        })
    m = {
        "version": 1,
        "setup_cmd": "cd /verif/mc && CARGO_NET_OFFLINE=true cargo build --release --offline",
        "hooks": {
            "guard": "--cfg brc20_prog_verif",
            "enable": "RUSTFLAGS --cfg brc20_prog_verif via /verif/mc/.cargo/config.toml; the harness crate /verif/mc has a path dependency on /repo, so every check rebuilds /repo's working tree with hooks on",
            "baseline_off_cmd": "cd /repo && cargo nextest run --workspace --no-fail-fast --test-threads 8 --offline || cargo test --workspace --no-fail-fast --offline",
            "source_commits": hook_commits,
            "add_only": True,
        },
        "engines": [
            {"name": "hist", "path": "/verif/mc/src/explore.rs", "serves_properties": [p for p in props if p in BUILT and BUILT[p][0] == "hist"],
             "kind_free_text": "history explorer: exhaustive enumeration of call sequences on the real engine (wipe + replay), protocol automaton + normal-form differential oracle"},
        ],
        "checks": checks,
        "not_applicable": [{"property_id": p, "reason": NOT_BUILT_REASON} for p in props if p not in BUILT],
        "notes": "exit codes of ./check: 0 held, 1 VIOLATION, 2 build failure, 3 machinery error (nondeterminism, vacuous oracle, worker crash). Known findings: /verif/known_findings.json.",
    }
    json.dump(m, open("/verif/MANIFEST.json", "w"), indent=1)
    print("wrote MANIFEST.json with", len(checks), "checks")

if __name__ == "__main__":
    main()
